#!/bin/bash
# Runs every registered check (tier $1, default quick) and prints one verdict line per property.
cd "$(dirname "$0")" || exit 2
tier="${1:-quick}"
rc=0
for p in $(/venv/bin/python -c "import json; print(' '.join(c['property_id'] for c in json.load(open('MANIFEST.json'))['checks']))"); do
  out=$(./check "$p" "$tier" 2>&1); r=$?
  echo "$p rc=$r $(echo "$out" | grep -E '^\[C..\] tier' | sed 's/.*cases=/cases=/')"
  echo "$out" | grep -E '^(VIOLATION|INCONCLUSIVE|KNOWN-FINDING|  signature)' | cut -c1-220
  [ $r -ne 0 ] && rc=1
done
exit $rc
