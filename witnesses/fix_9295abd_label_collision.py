import sys; sys.path.insert(0, sys.argv[1])
from leuvenmapmatching.map.inmem import InMemMap
from leuvenmapmatching.matcher.simple import SimpleMatcher
def run(names):
    a,b=names
    mp=InMemMap("m",graph={a:((0.,0.),[b]), b:((0.,10.),[a])},use_latlon=False,use_rtree=False)
    mt=SimpleMatcher(mp,max_dist=None,obs_noise=1.0,non_emitting_states=False,only_edges=True,avoid_goingback=True)
    st,idx=mt.match([(0.2,2.),(0.2,8.),(-0.2,8.),(-0.2,2.)])
    return idx, mt.lattice_best[-1].logprob
print(run(("p","q")), run(("x","x-x")))
