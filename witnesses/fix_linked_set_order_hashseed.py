"""witness for the repaired defect: InMemMap.edges_nbrto iterated a SET of linked edges (the documented type, and what
connect_parallelroads builds); with string labels the order - and with it the choice among equally probable linked
carriageways - depended on PYTHONHASHSEED.   usage: python fix_linked_set_order_hashseed.py <repo root>"""
import json, os, subprocess, sys
CHILD = r'''
import sys, json
sys.path.insert(0, sys.argv[1])
from leuvenmapmatching.map.inmem import InMemMap
from leuvenmapmatching.matcher.distance import DistanceMatcher
g = {"a": ((0.0, 0.0), ["b"]), "b": ((0.0, 10.0), []), "c": ((1.0, 12.0), ["d"]), "d": ((1.0, 22.0), []),
     "e": ((-1.0, 12.0), ["f"]), "f": ((-1.0, 22.0), [])}
mp = InMemMap("w", graph=g, use_latlon=False, use_rtree=False, linked_edges={("a", "b"): {("c", "d"), ("e", "f")}})
mt = DistanceMatcher(mp, max_dist=8.0, max_dist_init=6.0, obs_noise=2.0, non_emitting_states=False)
print(json.dumps(mt.match([(0.0, 5.0), (0.0, 17.0)])[0]))
'''
outs = set()
for hs in range(12):
    r = subprocess.run([sys.executable, "-c", CHILD, sys.argv[1]], env=dict(os.environ, PYTHONHASHSEED=str(hs)), capture_output=True, text=True)
    outs.add(r.stdout.strip().splitlines()[-1])
print("distinct results over 12 hash seeds:", outs)
sys.exit(0 if len(outs) == 1 else 1)
