"""witness for the repaired defect: planar lines_parallel gave an exactly axis-aligned line (zero difference in the first
coordinate) the slope angle 0 instead of pi/2, so an east-west road and a (nearly) north-south road that CROSS were
'parallel' and connect_parallelroads linked them.   usage: python fix_lines_parallel_axis_aligned.py <repo root>"""
import sys
sys.path.insert(0, sys.argv[1])
from leuvenmapmatching.util import dist_euclidean as de
r = de.lines_parallel((85.8, 27.0), (85.8, 138.6), (132.3, 88.8), (36.3, 87.3), d=20.0)
print("east-west road vs north-south road that crosses it: lines_parallel ->", r)
sys.exit(1 if r else 0)
