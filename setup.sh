#!/bin/bash
# Nothing to build: the framework is pure Python on /venv/bin/python (numpy/scipy are the repository's own
# dependencies); this only verifies that the interpreter and the working tree are usable offline.
cd "$(dirname "$0")" || exit 1
mkdir -p evidence replays
PYTHONPATH="$PWD" PYTHONDONTWRITEBYTECODE=1 /venv/bin/python -c "import lmmverif.env as e, numpy, scipy; print('lmmverif ok, repo =', e.REPO)"
