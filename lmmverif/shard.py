"""One shard = one fresh interpreter running cases i = shard, shard+n, ... of a property.

usage: python -m lmmverif.shard PROP SEED SHARD NSHARDS NCASES TIER OUTFILE
Case i is generated from random.Random(f"{PROP}:{SEED}:{i}") only, so results do not depend on
the number of shards.  stdout of the code under test is discarded (SqliteMap.edges_closeto prints).
"""
import importlib
import io
import json
import os
import random
import shutil
import sys
import tempfile
import time
import traceback
import contextlib
import faulthandler


def scratch_root():
    """scratch space outside /repo and /verif; RAM-backed when available (SQLite commits fsync)."""
    d = os.environ.get("LMM_SCRATCH")
    if d:
        return d
    if os.path.isdir("/dev/shm") and os.access("/dev/shm", os.W_OK):
        return "/dev/shm"
    return None


def main(argv):
    prop, seed, shard, nshards, ncases, tier, out = argv
    seed, shard, nshards, ncases = int(seed), int(shard), int(nshards), int(ncases)
    faulthandler.enable()
    from . import env
    from .ctx import Ctx, CaseTimeout
    mod = importlib.import_module(f"lmmverif.props.{prop}")
    ctx = Ctx(prop, seed, tier, shard)
    ctx.scratch = tempfile.mkdtemp(prefix=f"lmmverif_{prop}_", dir=scratch_root())
    ctx.start_linecov(env.REPO)
    t0 = time.time()
    budget = float(os.environ.get("LMM_SHARD_BUDGET_S", "0")) or None
    sink = io.StringIO()
    try:
        with contextlib.redirect_stdout(sink):
            if hasattr(mod, "shard_setup"):
                mod.shard_setup(ctx)
            timeout = getattr(mod, "CASE_TIMEOUT", 20)
            for i in range(shard, ncases, nshards):
                if budget and time.time() - t0 > budget:
                    ctx.count("budget_cut_cases")
                    continue
                rng = random.Random(f"{prop}:{seed}:{i}")
                ctx.cases += 1
                case = None
                try:
                    with ctx.watchdog(timeout):
                        case = mod.gen_case(rng, i, tier)
                        if case is None:
                            ctx.count("gen_skipped")
                            continue
                        mod.check_case(ctx, case)
                except CaseTimeout:
                    ctx.watchdog_hits += 1
                except Exception:
                    # an exception in the *harness* (generator / oracle), not a verdict: recorded and
                    # reported as inconclusive by the runner if it happens at all
                    ctx.errors.append({"i": i, "tb": traceback.format_exc()[-1500:], "case": case})
                if sink.tell() > 1 << 20:
                    sink.seek(0)
                    sink.truncate()
            if hasattr(mod, "shard_teardown"):
                mod.shard_teardown(ctx)
    finally:
        ctx.stop_linecov()
        shutil.rmtree(ctx.scratch, ignore_errors=True)
    res = ctx.dump()
    res["wall_s"] = time.time() - t0
    with open(out, "w") as f:
        json.dump(res, f, default=repr)


if __name__ == "__main__":
    main(sys.argv[1:])


def dimension_note(mod):
    """which cross-cutting workload dimensions (DESIGN.md 9.1) a property module applies, read off its source."""
    import inspect
    try:
        src = inspect.getsource(mod)
    except Exception:
        return ""
    notes = []
    if "debug_dimension(" in src or 'case["debug"]' in src or "debug_level(" in src:
        notes.append("a share of the cases with the package logger at DEBUG")
    if "backend_dimension(" in src:
        notes.append("a share of the integer-labelled edge-state cases on SqliteMap (single or bulk inserts, a third in a reused database file) or on an InMemMap built node by node")
    if "scale_dimension(" in src or '"tiny"' in src:
        notes.append("a share of the planar cases in a small coordinate unit (everything x 2^-7..2^-17)")
    if "make_matcher" in src:
        notes.append("leading matcher options passed positionally or by keyword depending on the configuration")
    if "add_pre_trace" in src or "pre_trace" in src:
        notes.append("a share of the matcher objects reused (another trace matched before / afterwards)")
    return ("  Cross-cutting dimensions: " + "; ".join(notes) + ".") if notes else ""
