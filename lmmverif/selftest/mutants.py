"""Mutants for the self-test of the monitors: (file, old text, new text, properties expected to notice).
Exact-match substitutions; the driver fails loudly when the source has drifted."""
B = "leuvenmapmatching/matcher/base.py"
D = "leuvenmapmatching/matcher/distance.py"
S = "leuvenmapmatching/matcher/simple.py"
E = "leuvenmapmatching/util/dist_euclidean.py"
L = "leuvenmapmatching/util/dist_latlon.py"
IM = "leuvenmapmatching/map/inmem.py"
SQ = "leuvenmapmatching/map/sqlite.py"
MB = "leuvenmapmatching/map/base.py"

MUTANTS = {
    # ---- C01
    "c01_update_flip": (B, "or (self.stop == m_next.stop and self.logprob < m_next.logprob):", "or (self.stop == m_next.stop and self.logprob > m_next.logprob):", ["C01"]),
    "c01_no_uturn": (B, "if m.edge_m.l2 != nbr_label2 and m.edge_m.l1 != nbr_label1:", "if m.edge_m.l2 != nbr_label2 and m.edge_m.l1 != nbr_label1 and m.edge_m.l1 != nbr_label2:", ["C01"]),
    "c01_first_stop": (B, "        new_stop = matcher.do_stop(logprob, dist_obs, logprob_init, logprob_obs)", "        new_stop = matcher.do_stop(logprob / 2, dist_obs, logprob_init, logprob_obs)", ["C01", "C05"]),
    "c01_maxdist_ge": (B, "        if dist > self.max_dist:\n", "        if dist >= self.max_dist:\n", ["C01"]),
    "c01_backtrack_worst": (B, "if prev_m is not None and (node_max is None or prev_m.logprob > node_max.logprob):", "if prev_m is not None and (node_max is None or prev_m.logprob < node_max.logprob):", []),
    # ---- C02
    "c02_forget_ds": (D, "        self.d_s = m_other.d_s\n        self.d_o = m_other.d_o\n", "        pass\n", ["C02"]),
    "c02_ne_sigma": (D, "        if is_ne:\n            sigma = self.sigma_ne", "        if False:\n            sigma = self.sigma_ne", ["C02"]),
    "c02_min_to_sum": (B, "new_logprobne = min(self.logprobne, new_logprob_delta)", "new_logprobne = self.logprobne + new_logprob_delta", ["C02"]),
    "c02_delayed_copy": (B, "        self.delayed = m_other.delayed\n", "        pass\n", ["C02"]),
    "c02_goback_wrong_pred": (S, "                for m in prev_m.prev:\n                    if edge_m.key == m.edge_m.key:", "                for m in prev_m.prev_other:\n                    if edge_m.key == m.edge_m.key:", ["C02"]),
    # ---- C03
    "c03_startidx": (B, "            start_idx = self.early_stop_idx - 1\n", "            start_idx = max(0, self.early_stop_idx - 2)\n", ["C03"]),
    "c03_unique_inv": (B, "                if node != prev_node:\n                    self.node_path.append(node)\n                    prev_node = node", "                if node != prev_node or len(self.node_path) < 2:\n                    self.node_path.append(node)\n                    prev_node = node", ["C03"]),
    "c03_early_truthy": (B, "        if self.early_stop_idx is None:\n            one_no_stop = False", "        if not self.early_stop_idx:\n            one_no_stop = False", ["C03", "C19"]),
    # ---- C04
    "c04_reverse_edge": (IM, "        for l3, p3 in self.nodes_nbrto(l2):\n            results.append((l2, p2, l3, p3))\n        # Edges that are in parallel and close", "        for l3, p3 in self.nodes_nbrto(l2):\n            results.append((l2, p2, l3, p3))\n        for l0, (p0, nb0) in self.graph.items():\n            if l2 in nb0 and l0 != l1:\n                results.append((l2, p2, l0, p0))\n        # Edges that are in parallel and close", ["C04"]),
    "c04_no_prev_ne_filter": (B, "                    if self._node_in_prev_ne(m, nbr_label):\n                        if __debug__:\n                            logger.debug(self.matching.repr_static(('x', '{} < node in prev ne'.format(nbr_label))))\n                        continue\n                    # === Move to next node ===", "                    # === Move to next node ===", []),
    "c04_sqlite_incoming": (SQ, "        q = ('SELECT e.id2, n2.y, n2.x FROM edges e '\n             'INNER JOIN nodes n2 ON n2.id = e.id2 '\n             'WHERE e.id1 = ?')", "        q = ('SELECT e.id1, n2.y, n2.x FROM edges e '\n             'INNER JOIN nodes n2 ON n2.id = e.id1 '\n             'WHERE e.id2 = ?')", ["C04", "C12"]),
    # ---- C05
    "c05_norm_len": (B, "new_stop |= self.matcher.do_stop(new_logprob / new_length, dist, logprob_trans, logprob_obs)", "new_stop |= self.matcher.do_stop(new_logprob / (new_length + 3), dist, logprob_trans, logprob_obs)", ["C05", "C01"]),
    "c05_skip_dist": (B, "        if dist > self.max_dist:\n            logger.debug(f\"   | Stopped trace: distance too large: {dist} > {self.max_dist}\")\n            return True", "        if dist > 2 * self.max_dist:\n            return True", ["C05"]),
    "c05_pi_not_stored": (B, "            edge_m.pi = proj_m\n            edge_m.ti = t_m\n            # proj_o = edge_o.pi", "            edge_m.pi = edge_m.p1\n            edge_m.ti = t_m\n            # proj_o = edge_o.pi", ["C05"]),
    # ---- C06
    "c06_end_flip": (B, "                                if m_next.logprob > lattice_best[m_next.shortkey].logprob:\n                                    lattice_best[m_next.shortkey] = m_next\n                                    # lattice_toinsert.append(m_next)\n                                    self.lattice[obs_idx].upsert(m_next)\n                                elif __debug__ and logger.isEnabledFor(logging.DEBUG):\n                                    m_next.stop = True\n                                    # lattice_toinsert.append(m_next)\n                                    self.lattice[obs_idx].upsert(m_next)\n                            else:\n                                lattice_best[m_next.shortkey] = m_next\n                                # lattice_toinsert.append(m_next)\n                                self.lattice[obs_idx].upsert(m_next)\n                            if __debug__:\n                                logger.debug(str(m_next))\n                    else:\n                        if __debug__:\n                            logger.debug(self.matching.repr_static(('x', '{} < going back'.format(nbr_label2))))",
                     "                                if True:\n                                    lattice_best[m_next.shortkey] = m_next\n                                    self.lattice[obs_idx].o[0][m_next.key] = m_next\n                            else:\n                                lattice_best[m_next.shortkey] = m_next\n                                self.lattice[obs_idx].upsert(m_next)\n                    else:\n                        pass", ["C06"]),
    "c06_skip_emitting": (B, "            # Expand matches\n            self._match_states(obs_idx)\n            if self.non_emitting_states:", "            # Expand matches\n            if not self.non_emitting_states or obs_idx % 3 != 2:\n                self._match_states(obs_idx)\n            if self.non_emitting_states:", ["C06"]),
    # ---- C07
    "c07_sort_dir": (B, "ms = sorted(cur_lattice, key=lambda t: t.prune_value, reverse=True)", "ms = sorted(cur_lattice, key=lambda t: t.prune_value, reverse=False)", ["C07"]),
    "c07_no_tie": (B, "while cur_width < len(ms) and ms[cur_width].prune_value == m_last.prune_value:", "while False and cur_width < len(ms) and ms[cur_width].prune_value == m_last.prune_value:", ["C07"]),
    "c07_expand_leq": (B, "            prev_lattice = [m for m in self.lattice[obs_idx - 1].values(0) if not m.stop and m.delayed == self.expand_now]", "            prev_lattice = [m for m in self.lattice[obs_idx - 1].values(0) if not m.stop and m.delayed >= self.expand_now]", ["C07"]),
    # equivalent without continue_with_distance: an entry in the top W never has delayed == round + 1 (replacement copies `delayed`)
    "c07_reactivate_wrong": (B, "                if m.delayed > expand_upto:\n                    m.delayed = expand_upto  # expand now", "                if m.delayed > expand_upto + 1:\n                    m.delayed = expand_upto  # expand now", []),
    "c07_postpone_lt": (B, "                if m.delayed <= expand_upto:\n                    if __debug__:\n                        cnt_pruned += 1", "                if m.delayed < expand_upto:\n                    if __debug__:\n                        cnt_pruned += 1", ["C07"]),
    # ---- C08
    "c08_no_reactivate": (B, "                    self.lattice[len(self.path) - 1].set_delayed(self.expand_now)\n", "                    pass\n", ["C08"]),
    "c08_ne_not_restricted": (B, "            cur_lattice = dict((m.key, m) for m in self.lattice[obs_idx].values(0) if not m.stop and m.delayed == self.expand_now)", "            cur_lattice = dict((m.key, m) for m in self.lattice[obs_idx].values(0) if not m.stop and m.delayed == self.expand_now - 1)", ["C08"]),
    # ---- C09
    "c09_prev_copy": (B, "        self.prev = m_other.prev\n", "        pass\n", ["C09", "C02"]),
    "c09_len_copy": (B, "        self.length = m_other.length\n", "        pass\n", []),
    "c09_key_wrong_idx": (B, "                        m_next = m.next(edge_m, edge_o, obs=obs_idx, obs_ne=nb_ne)\n                        if m_next is not None:\n                            m_cur = cur_lattice_new.get(m_next.key)", "                        m_next = m.next(edge_m, edge_o, obs=obs_idx, obs_ne=nb_ne)\n                        if m_next is not None and nb_ne == 2:\n                            m_next.obs_ne = 1\n                        if m_next is not None:\n                            m_cur = cur_lattice_new.get(m_next.key)", ["C09"]),
    "c09_inc_delayed_off": (B, "                    if m.delayed >= expand_from:\n                        m.delayed += 1", "                    if m.delayed >= expand_from:\n                        m.delayed += 1\n                        m.logprob += 1e-3", ["C09"]),
    # ---- C10
    "c10_values_all_set": (B, "        values = []\n        for o in self.o:\n            values.extend(o.values())\n        return values", "        values = set()\n        for o in self.o:\n            values.update(o.values())\n        return values", ["C10"]),
    "c10_sort_by_label": (B, "            ms = sorted(cur_lattice, key=lambda t: t.prune_value, reverse=True)\n            cur_width = max_lattice_width\n            m_last = ms[cur_width - 1]", "            ms = sorted(cur_lattice, key=lambda t: (round(t.prune_value, 6), hash(str(t.label))), reverse=True)\n            cur_width = max_lattice_width\n            m_last = ms[cur_width - 1]", ["C10", "C07"]),
    # ---- C11
    "c11_box_small": (E, "    lat_t, lon_r = lat + dist, lon + dist\n    lat_b, lon_l = lat - dist, lon - dist", "    lat_t, lon_r = lat + 0.9 * dist, lon + dist\n    lat_b, lon_l = lat - dist, lon - dist", ["C11", "C13"]),
    "c11_nosort": (SQ, "            if dist < max_dist:\n                results.append((dist, key_a, loc_a, key_b, loc_b, pi, ti))\n        results.sort()", "            if dist < max_dist:\n                results.append((dist, key_a, loc_a, key_b, loc_b, pi, ti))", ["C11"]),
    "c11_leq": (IM, "            dist = self.distance(loc, oloc)\n            if dist < max_dist:", "            dist = self.distance(loc, oloc)\n            if dist <= max_dist:", ["C11"]),
    "c11_contain_edges": (SQ, "            q += ' AND ei.maxX >= ? AND ei.minX <= ? AND ei.maxY >= ? AND ei.minY <= ?'\n            c.execute(q, (min_x, max_x, min_y, max_y))", "            q += ' AND ei.minX >= ? AND ei.maxX <= ? AND ei.minY >= ? AND ei.maxY <= ?'\n            c.execute(q, (min_x, max_x, min_y, max_y))", ["C11"]),
    # ---- C12
    "c12_xy_swap_edges": (SQ, "            yield key_a, (lat_a, lon_a), key_b, (lat_b, lon_b)", "            yield key_a, (lon_a, lat_a), key_b, (lat_b, lon_b)", ["C12", "C11"]),
    "c12_bb_cols": (SQ, "        c.execute('SELECT min(x), max(x), min(y), max(y) FROM nodes;')", "        c.execute('SELECT min(x), max(x), min(x), max(y) FROM nodes;')", ["C12"]),
    "c12_strict_box": (SQ, "                  'AND n.x >= ? AND n.x <= ? AND n.y >= ? AND n.y <= ?')", "                  'AND n.x > ? AND n.x <= ? AND n.y >= ? AND n.y <= ?')", ["C12"]),
    # ---- C13
    "c13_t_not_clamped": (E, "    t = max(delta, min(1-delta, ((p[0]-s1[0])*(s2[0]-s1[0]) + (p[1]-s1[1])*(s2[1]-s1[1])) / l2))", "    t = max(delta, min(1.5-delta, ((p[0]-s1[0])*(s2[0]-s1[0]) + (p[1]-s1[1])*(s2[1]-s1[1])) / l2))", ["C13"]),
    "c13_skip_f_ends": (E, "    for pf, u_f in ((f1, 0.0), (f2, 1.0)):\n        pt, u_t = project(t1, t2, pf)", "    for pf, u_f in ((f1, 0.0),):\n        pt, u_t = project(t1, t2, pf)", ["C13"]),
    # equivalent within the tested scale range 2^-10..2^24 (needs crossing segments with |n| < 1e-8, i.e. coordinates ~1e-5)
    "c13_parallel_abs": (E, "    if abs(n) > 1e-9 * lf * lt:", "    if abs(n) > 1e-8:", []),
    # ---- C14
    "c14_radius": (L, "earth_radius = 6371000", "earth_radius = 6378137", ["C14"]),
    "c14_sign": (L, "    sgn = copysign(1, cos(b12 - b13))", "    sgn = copysign(1, cos(b12 + b13))", ["C14"]),
    "c14_clamp_end": (L, "    elif ti > 1.0:\n        ti = 1.0\n        lati, loni = lat2, lon2", "    elif ti > 1.0:\n        ti = 1.0\n        lati, loni = lat1, lon1", ["C14"]),
    "c14_box_diag": (L, "        dlon = asin(min(1.0, sin(d) / cos(latr)))", "        dlon = d", ["C14", "C11"]),
    # ---- C15
    "c15_mirror": (L, "    f2 = (df1f2 * cos(bf1f2),  df1f2 * sin(bf1f2))", "    f2 = (df1f2 * cos(bf1f2),  -df1f2 * sin(bf1f2))", ["C14"]),
    "c15_degrees": (L, "    lat1, lon1 = p1[0], p1[1]\n    lat2, lon2 = p2[0], p2[1]\n    lat1, lon1 = radians(lat1), radians(lon1)", "    lat1, lon1 = p1[0], p1[1]\n    lat2, lon2 = p2[0], p2[1]\n    lat1, lon1 = radians(lat1), radians(lon1 * 1.01)", ["C14", "C15"]),
    # ---- C16
    "c16_label_order": (B, "                        if m.edge_m.l2 != nbr_label2 and m.edge_m.l1 != nbr_label1:", "                        if m.edge_m.l2 != nbr_label2 and m.edge_m.l1 != nbr_label1 and not (str(nbr_label2) < str(m.edge_m.l1) and len(nbrs) > 2):", ["C16"]),
    "c16_abs_tol": (E, "    if abs(n) > 1e-9 * lf * lt:", "    if abs(n) > 1e-4:", ["C16", "C13"]),
    "c16_xy_mix": (E, "    result = math.sqrt((p1[0] - p2[0]) ** 2 + (p1[1] - p2[1]) ** 2)", "    result = math.sqrt((p1[0] - p2[0]) ** 2 + 1.0001 * (p1[1] - p2[1]) ** 2)", ["C16", "C13"]),
    # ---- C17
    "c17_unpack": (E, "    x3, y3 = t1[0], t1[1]", "    x3, y3 = t1", ["C17"]),
    "c17_guard": (S, "            result = -0.5 * (dist / self.obs_noise) ** 2", "            result = -0.5 * (dist / self.obs_noise) ** 2 + 4.4e-17", ["C17"]),
    # ---- C18
    "c18_dict": (SQ, "            setattr(self, key, value)", "            self.__dict__[key] = value", ["C18"]),
    "c18_drop_commit": (SQ, "        q = \"INSERT INTO nodes VALUES(?, ?, ?)\"\n        c.executemany(q, get_node_vals())\n        self.db.commit()", "        q = \"INSERT INTO nodes VALUES(?, ?, ?)\"\n        c.executemany(q, get_node_vals())", ["C18"]),
    "c18_pickle_omit": (IM, "            \"linked_edges\": self.linked_edges\n", "            \"linked_edges\": None\n", ["C18"]),
    "c18_reindex_partial": (SQ, "        q = (\"INSERT INTO nodes_index \"\n             \"SELECT id, x, x, y, y FROM nodes\")", "        q = (\"INSERT INTO nodes_index \"\n             \"SELECT id, x, x, y, y FROM nodes WHERE id % 7 != 3\")", ["C18"]),
    # ---- C19
    "c19_forget_skip": (B, "        cur_lattice = [m for m in self.values(obs_ne) if not m.stop]\n        if __debug__:", "        cur_lattice = [m for m in self.values(obs_ne)]\n        if __debug__:", ["C19"]),
    "c19_revive": (B, "            if other_matching.stop and not matching.stop:\n                # A stopped matching is only kept when debugging. Replace it such that the order\n                # of the matchings (and thus the choice between equally probable paths) is the\n                # same as without debugging.\n                del c[matching.key]\n                c[matching.key] = matching\n            else:\n                other_matching.update(matching)", "            other_matching.update(matching)", ["C19"]),
    # ---- C20
    "c20_floor": (E, "            dt = int(math.ceil(dist / dd))", "            dt = int(math.floor(dist / dd))", ["C20"]),
    "c20_round_latlon": (L, "            dt = int(ceil(dist / dd))", "            dt = int(round(dist / dd))", ["C20"]),
    "c20_bearing_wrong": (L, "            brng = bearing_radians(lat1, lon1, lat2, lon2)\n            for _ in range(dt):", "            brng = bearing_radians(lat2, lon2, lat1, lon1) + math.pi\n            for _ in range(dt):", ["C20"]),
}
