"""Run one property check: shard over processes, fold verdicts, write evidence and replay files.

usage: python -m lmmverif.runner PROP [quick|thorough] | PROP --replay FILE

Exit 0  held on everything observed (KNOWN-FINDING lines may be printed)
Exit 1  VIOLATION property=<id> replay=<path>   (a violation not listed in known_findings.json)
Exit 2  INCONCLUSIVE property=<id> reason=...   (a deciding monitor observed too little, a shard died,
        the harness itself raised, or >1 % of the cases hit the watchdog)
"""
import collections
import importlib
from .shard import dimension_note
import json
import os
import subprocess
import sys
import tempfile
import time
import shutil

HERE = os.path.dirname(os.path.abspath(__file__))
VERIF = os.path.dirname(HERE)
PY = sys.executable


def load_known():
    fn = os.path.join(VERIF, "known_findings.json")
    if not os.path.exists(fn):
        return {}
    with open(fn) as f:
        data = json.load(f)
    known = {}
    for e in data.get("findings", []):
        if e.get("status") == "known":
            known[(e["property"], e["signature"])] = e
    return known


def executable_lines(path):
    try:
        with open(path) as f:
            code = compile(f.read(), path, "exec")
    except Exception:
        return set()
    out = set()
    stack = [code]
    while stack:
        c = stack.pop()
        for _, _, ln in c.co_lines():
            if ln is not None:
                out.add(ln)
        for k in c.co_consts:
            if hasattr(k, "co_lines"):
                stack.append(k)
    return out


def resolve_anchor(repo, rel, what):
    """(lo, hi) line range of a function/class `what` (qualified name) in file rel; a tuple is taken as is."""
    import ast
    if isinstance(what, (tuple, list)):
        return int(what[0]), int(what[1])
    try:
        with open(os.path.join(repo, rel)) as f:
            tree = ast.parse(f.read())
    except Exception:
        return None
    parts = what.split(".")
    nodes = tree.body
    found = None
    lo = hi = None
    for pi, part in enumerate(parts):
        cands = [n for n in nodes if isinstance(n, (ast.FunctionDef, ast.ClassDef, ast.AsyncFunctionDef)) and n.name == part]
        if not cands:
            return None
        found = cands[0]
        nodes = found.body
        if pi == len(parts) - 1:
            # a property has a getter and a setter of the same name: cover both
            lo, hi = min(c.lineno for c in cands), max(c.end_lineno for c in cands)
    return lo, hi


def run(prop, tier, seed):
    t0 = time.time()
    os.environ.setdefault("LMM_VERIF", "1")
    mod = importlib.import_module(f"lmmverif.props.{prop}")
    repo = os.path.realpath(os.environ.get("LMM_REPO", "/repo"))
    ncases = int(os.environ.get("LMM_CASES", 0)) or mod.CASES[tier]
    ncpu = os.cpu_count() or 4
    nshards = int(os.environ.get("LMM_SHARDS", 0)) or min(ncpu, getattr(mod, "MAX_SHARDS", 16), max(1, ncases // getattr(mod, "MIN_CASES_PER_SHARD", 20)))
    envsets = mod.shard_envs(tier) if hasattr(mod, "shard_envs") else [{"PYTHONHASHSEED": "0"}]
    tmp = tempfile.mkdtemp(prefix=f"lmmverif_run_{prop}_")
    shard_timeout = getattr(mod, "SHARD_TIMEOUT", {"quick": 600, "thorough": 3 * 3600})[tier]
    jobs = []
    for ei, extra in enumerate(envsets):
        for s in range(nshards):
            out = os.path.join(tmp, f"e{ei}_s{s}.json")
            env = dict(os.environ)
            env.update(extra)
            env["PYTHONPATH"] = VERIF
            env["PYTHONDONTWRITEBYTECODE"] = "1"
            env["LMM_REPO"] = repo
            env["LMM_ENVSET"] = str(ei)
            cmd = [PY, "-m", "lmmverif.shard", prop, str(seed), str(s), str(nshards), str(ncases), tier, out]
            jobs.append((ei, s, out, cmd, env))
    results = []
    dead = []
    running = []
    pending = list(jobs)
    maxpar = int(os.environ.get("LMM_PAR", 0)) or ncpu
    while pending or running:
        while pending and len(running) < maxpar:
            ei, s, out, cmd, env = pending.pop(0)
            p = subprocess.Popen(cmd, env=env, cwd=VERIF, stdout=subprocess.DEVNULL, stderr=subprocess.PIPE)
            running.append((ei, s, out, p, time.time()))
        time.sleep(0.05)
        still = []
        for ei, s, out, p, ts in running:
            rc = p.poll()
            if rc is None:
                if time.time() - ts > shard_timeout:
                    p.kill()
                    p.wait()
                    dead.append((ei, s, "shard timeout"))
                else:
                    still.append((ei, s, out, p, ts))
                continue
            err = p.stderr.read().decode(errors="replace")
            if rc != 0 or not os.path.exists(out):
                dead.append((ei, s, f"rc={rc} {err[-800:]}"))
            else:
                with open(out) as f:
                    r = json.load(f)
                r["envset"] = ei
                results.append(r)
        running = still
    shutil.rmtree(tmp, ignore_errors=True)
    results.sort(key=lambda r: (r["envset"], r["shard"]))

    fold = {
        "prop": prop, "tier": tier, "seed": seed, "ncases": ncases, "results": results,
        "counters": collections.Counter(), "viol_counts": collections.Counter(), "violations": [],
        "nontrivial": set(), "samples": [], "evaluations": 0, "cases": 0, "watchdog_hits": 0,
        "errors": [], "lines": collections.defaultdict(set), "dead": dead, "extra": {},
    }
    for r in results:
        fold["counters"].update(r["counters"])
        fold["viol_counts"].update(r["viol_counts"])
        fold["violations"].extend(r["violations"])
        fold["nontrivial"].update(r["nontrivial"])
        if len(fold["samples"]) < 3:
            fold["samples"].extend(r["samples"][: 3 - len(fold["samples"])])
        fold["evaluations"] += r["evaluations"]
        fold["cases"] += r["cases"]
        fold["watchdog_hits"] += r["watchdog_hits"]
        fold["errors"].extend(r["errors"])
        for k, v in r["lines"].items():
            fold["lines"][k].update(v)
    if hasattr(mod, "finalize"):
        mod.finalize(fold)
    return finish(mod, fold, repo, t0)


def classify(prop, fold):
    known = load_known()
    per_sig = collections.OrderedDict()
    for v in fold["violations"]:
        per_sig.setdefault(v["sig"], []).append(v)
    for sig in fold["viol_counts"]:
        per_sig.setdefault(sig, [])
    listed, unlisted = [], []
    for sig, vs in per_sig.items():
        (listed if (prop, sig) in known else unlisted).append((sig, vs))
    return known, listed, unlisted


def write_replay(prop, v):
    from .ctx import jhash
    d = os.path.join(VERIF, "replays", prop)
    os.makedirs(d, exist_ok=True)
    fn = os.path.join(d, jhash([v["sig"], v["case"]]) + ".json")
    with open(fn, "w") as f:
        json.dump({"property": prop, "signature": v["sig"], "why": v["why"], "case": v["case"],
                   "extra": {k: x for k, x in v.items() if k not in ("sig", "why", "case")}}, f, indent=1, default=repr)
    return fn


def finish(mod, fold, repo, t0):
    prop, tier, seed = fold["prop"], fold["tier"], fold["seed"]
    known, listed, unlisted = classify(prop, fold)
    inconclusive = []
    if fold["dead"]:
        inconclusive.append("shards died: " + "; ".join(f"{e}/{s}: {why[-300:]}" for e, s, why in fold["dead"][:2]).replace("\n", " | "))
    if fold["errors"]:
        inconclusive.append(f"{len(fold['errors'])} harness errors, first: " + fold["errors"][0]["tb"][-400:].replace("\n", " | "))
    if fold["cases"] and fold["watchdog_hits"] > max(2, 0.01 * fold["cases"]):
        inconclusive.append(f"watchdog fired on {fold['watchdog_hits']} of {fold['cases']} cases")
    floors = dict(getattr(mod, "FLOORS", {}))
    ffn = os.path.join(VERIF, "floors.json")
    if os.path.exists(ffn):
        with open(ffn) as f:
            cal = json.load(f).get(prop, {})
        floors.update({k: v for k, v in cal.items() if k in floors})
    if os.environ.get("LMM_IGNORE_FLOORS"):
        floors = {}
    scale = 1.0
    if tier == "thorough" and not os.environ.get("LMM_CASES"):
        scale = max(1.0, 0.5 * mod.CASES["thorough"] / mod.CASES["quick"])
    if os.environ.get("LMM_CASES"):
        scale = min(1.0, int(os.environ["LMM_CASES"]) / mod.CASES["quick"] * 0.5)
    fixed = dict(getattr(mod, "FLOORS_FIXED", {}))
    allfloors = [(k, int(v * scale)) for k, v in floors.items()] + [(k, int(v)) for k, v in fixed.items()]
    for k, need in ([] if fold["dead"] else allfloors):
        have = fold["nontrivial_count"] if k == "distinct_nontrivial" and "nontrivial_count" in fold else (
            len(fold["nontrivial"]) if k == "distinct_nontrivial" else (
                fold["evaluations"] if k == "evaluations" else fold["counters"].get(k, 0)))
        if have < need:
            inconclusive.append(f"monitor counter {k}={have} below floor {need}")

    # anchor coverage
    anchors = []
    for rel, what in getattr(mod, "ANCHORS", []):
        rng_ = resolve_anchor(repo, rel, what)
        if rng_ is None:
            inconclusive.append(f"anchor {rel}:{what} not found in the source (attach point disappeared)")
            continue
        lo, hi = rng_
        ex = {ln for ln in executable_lines(os.path.join(repo, rel)) if lo < ln <= hi}
        key = rel.split("leuvenmapmatching/", 1)[-1]
        hit = {ln for ln in fold["lines"].get(key, ()) if lo <= ln <= hi}
        anchors.append({"file": rel, "what": str(what), "lines": f"{lo}-{hi}", "executable": len(ex), "executed": len(hit & ex) if ex else len(hit)})
        if ex and not (hit & ex):
            inconclusive.append(f"anchor {rel}:{what} never executed")

    n_unlisted = sum(fold["viol_counts"].get(sig, len(vs)) for sig, vs in unlisted)
    n_listed = sum(fold["viol_counts"].get(sig, len(vs)) for sig, vs in listed)
    wall = time.time() - t0
    nontriv = fold.get("nontrivial_count", len(fold["nontrivial"]))
    coverage = {
        "evaluations": fold["evaluations"],
        "distinct_nontrivial": nontriv,
        "rule": mod.RULE + dimension_note(mod),
        "samples": fold["samples"][:3],
        "exhaustive": False,
        "cases_generated": fold["cases"],
        "monitor_counters": dict(sorted(fold["counters"].items())),
        "anchor_lines": anchors,
        "watchdog_hits": fold["watchdog_hits"],
        "shards": len(fold["results"]),
        "known_finding_hits": {sig: fold["viol_counts"].get(sig, len(vs)) for sig, vs in listed},
        "unlisted_violation_signatures": {sig: fold["viol_counts"].get(sig, len(vs)) for sig, vs in unlisted},
        "verdict": "violated" if unlisted else ("inconclusive" if inconclusive else "held-on-observed"),
        "inconclusive_reasons": inconclusive,
    }
    coverage.update(fold["extra"])
    evidence = {
        "property_id": prop, "tier": tier, "seed": seed, "level": "exploration",
        "coverage": coverage,
        "assumptions": list(getattr(mod, "ASSUMPTIONS", [])) + [
            "code under test imported from " + repo + " (asserted), CPython/numpy/scipy/sqlite3 trusted",
            "nothing is claimed about inputs outside the generated classes (DESIGN.md section 8)"],
        "wall_s": round(wall, 2),
        "violations": n_unlisted,
    }
    evdir = os.path.join(VERIF, "evidence")
    os.makedirs(evdir, exist_ok=True)
    if not os.environ.get("LMM_NO_EVIDENCE"):
        with open(os.path.join(evdir, f"{prop}.json"), "w") as f:
            json.dump(evidence, f, indent=1, default=repr)

    print(f"[{prop}] tier={tier} seed={seed} cases={fold['cases']} evaluations={fold['evaluations']} "
          f"distinct_nontrivial={nontriv} wall={wall:.1f}s")
    cs = ", ".join(f"{k}={v}" for k, v in sorted(fold["counters"].items()))
    print(f"[{prop}] observed: {cs}")
    for a in anchors:
        print(f"[{prop}] anchor {a['file']}:{a['what']} ({a['lines']}) executed {a['executed']}/{a['executable']} lines")
    for sig, vs in listed:
        e = known[(prop, sig)]
        print(f"KNOWN-FINDING: property={prop} {sig} {e.get('what', '')} (seen {fold['viol_counts'].get(sig, len(vs))}x)")
    rc = 0
    if unlisted:
        rc = 1
        for sig, vs in unlisted:
            cnt = fold["viol_counts"].get(sig, len(vs))
            for v in vs[:1]:
                fn = write_replay(prop, v)
                print(f"VIOLATION property={prop} replay={fn}")
                print(f"  signature={sig} count={cnt} why={str(v['why'])[:600]}")
            if not vs:
                print(f"VIOLATION property={prop} replay=none")
                print(f"  signature={sig} count={cnt}")
    elif inconclusive:
        rc = 2
        for r in inconclusive:
            print(f"INCONCLUSIVE property={prop} reason={r}")
    else:
        print(f"[{prop}] HELD on everything observed")
    return rc


def replay(prop, path):
    os.environ.setdefault("LMM_VERIF", "1")
    from . import env  # noqa
    from .ctx import Ctx
    import contextlib
    import io
    mod = importlib.import_module(f"lmmverif.props.{prop}")
    with open(path) as f:
        data = json.load(f)
    ctx = Ctx(prop, 0, "quick")
    ctx.scratch = tempfile.mkdtemp(prefix=f"lmmverif_{prop}_")
    try:
        dbg = (data.get("extra") or {}).get("log_level") == "DEBUG"
        from . import build
        sq = (data.get("extra") or {}).get("backend")
        if isinstance(sq, dict) and sq.get("incremental"):
            build._BACKEND["incremental"] = True
            sq = None
        with contextlib.redirect_stdout(io.StringIO()), env.debug_level(dbg), \
                build.sqlite_backend(bool(sq), ctx.scratch, bulk=(sq or {}).get("bulk", True), prior=(sq or {}).get("prior")):
            if hasattr(mod, "shard_setup"):
                mod.shard_setup(ctx)
            if hasattr(mod, "replay_case"):
                mod.replay_case(ctx, data["case"])
            else:
                mod.check_case(ctx, data["case"])
            if hasattr(mod, "shard_teardown"):
                mod.shard_teardown(ctx)
    finally:
        shutil.rmtree(ctx.scratch, ignore_errors=True)
    known = load_known()
    rc = 0
    for v in ctx.violations:
        if (prop, v["sig"]) in known:
            print(f"KNOWN-FINDING: property={prop} {v['sig']} {known[(prop, v['sig'])].get('what', '')}")
        else:
            print(f"VIOLATION property={prop} replay={path}")
            print(f"  signature={v['sig']} why={str(v['why'])[:1000]}")
            rc = 1
    if not ctx.violations:
        print(f"[{prop}] replay of {path}: no violation (counters: {dict(ctx.counters)})")
    return rc


def main(argv):
    if len(argv) >= 3 and argv[1] == "--replay":
        sys.exit(replay(argv[0], argv[2]))
    prop = argv[0]
    tier = argv[1] if len(argv) > 1 else os.environ.get("VERIF_TIER", "quick")
    if tier not in ("quick", "thorough"):
        tier = "quick"
    try:
        seed = int(os.environ.get("VERIF_SEED", "0"))
    except ValueError:
        seed = 0
    sys.exit(run(prop, tier, seed))


if __name__ == "__main__":
    main(sys.argv[1:])
