"""Calibrate the inconclusive-floors: run every quick check on the unchanged tree for several seeds and set each
declared floor to 40 % of the smallest value observed (python -m lmmverif.calibrate [PROP...]).  Floors only say
'the monitor has not gone blind'; they are deliberately far below what the unchanged tree produces."""
import json
import os
import re
import subprocess
import sys
import importlib

HERE = os.path.dirname(os.path.abspath(__file__))
VERIF = os.path.dirname(HERE)


def main(argv):
    props = argv or sorted(f[:-3] for f in os.listdir(os.path.join(HERE, "props")) if re.match(r"C\d\d\.py$", f))
    fn = os.path.join(VERIF, "floors.json")
    floors = json.load(open(fn)) if os.path.exists(fn) else {}
    for p in props:
        mod = importlib.import_module(f"lmmverif.props.{p}")
        keys = list(getattr(mod, "FLOORS", {}))
        mins = {}
        for seed in (0, 1, 2):
            env = dict(os.environ, VERIF_SEED=str(seed), LMM_NO_EVIDENCE="1", LMM_IGNORE_FLOORS="1")
            out = subprocess.run([os.path.join(VERIF, "check"), p, "quick"], env=env, capture_output=True, text=True).stdout
            m = re.search(r"observed: (.*)", out)
            obs = dict(kv.split("=") for kv in m.group(1).split(", ")) if m else {}
            head = re.search(r"evaluations=(\d+) distinct_nontrivial=(\d+)", out)
            obs["evaluations"] = head.group(1)
            obs["distinct_nontrivial"] = head.group(2)
            for k in keys:
                v = int(obs.get(k, 0))
                mins[k] = min(mins.get(k, v), v)
        floors[p] = {k: max(1, int(0.4 * v)) for k, v in mins.items()}
        zero = [k for k, v in mins.items() if v == 0]
        print(p, "floors set;", "NEVER OBSERVED: %s" % zero if zero else "all counters observed")
    with open(fn, "w") as f:
        json.dump(floors, f, indent=1, sort_keys=True)


if __name__ == "__main__":
    main(sys.argv[1:])
