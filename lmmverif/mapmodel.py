"""Dict-of-sets model of a road map with full-scan answers computed by the reference geometry."""
import math
from fractions import Fraction as F

from . import gen
from . import refgeo as rg

EPS = 2.220446049250313e-16


class MapModel:
    def __init__(self, m):
        self.spec = m
        self.latlon = bool(m.get("latlon"))
        self.coords = gen.coords(m)
        self.edges = gen.real_edges(m)
        self.edgeset = set(self.edges)
        self.adj = gen.adjacency(m)

    # distances -------------------------------------------------------------------------------
    def dist(self, p, q):
        return rg.gc_dist(p, q) if self.latlon else rg.pl_dist(p[:2], q[:2])

    def pt_edge(self, p, e):
        a, b = self.coords[e[0]], self.coords[e[1]]
        if self.latlon:
            return rg.gc_point_segment(p, a, b)
        return rg.pl_point_segment(p[:2], a, b)

    def exact_cmp_node(self, p, l, r):
        """sign of (dist - r) decided exactly (planar only)."""
        q = self.coords[l]
        sq = rg.f_sqdist(rg.fr(p[:2]), rg.fr(q))
        rr = F(r) * F(r)
        return (sq > rr) - (sq < rr)

    def exact_cmp_edge(self, p, e, r):
        a, b = self.coords[e[0]], self.coords[e[1]]
        sq = rg.f_project(rg.fr(p[:2]), rg.fr(a), rg.fr(b))[0]
        rr = F(r) * F(r)
        return (sq > rr) - (sq < rr)

    # tolerances ------------------------------------------------------------------------------
    def tol_node(self, p, d):
        if self.latlon:
            return 1e-3 + 1e-9 * d
        m = max(abs(x) for x in p[:2])
        return 1e-9 * d + 64 * EPS * max(m, d)

    def tol_edge(self, p, e, d):
        if self.latlon:
            return 0.25
        a, b = self.coords[e[0]], self.coords[e[1]]
        m = max(abs(x) for x in tuple(p[:2]) + a + b)
        ext = max(abs(a[0] - b[0]), abs(a[1] - b[1]), d)
        return 1e-6 * ext + 64 * EPS * m

    def band_node(self, r):
        return (1e-3 + 1e-9 * r) if self.latlon else 1e-9 * r

    def band_edge(self, r):
        return (0.25 + 1e-9 * r) if self.latlon else 1e-9 * r

    # full-scan answers -----------------------------------------------------------------------
    def nodes_within(self, p, r):
        """-> (must, dontcare, mustnot): dicts label -> reference distance"""
        must, dc, mustnot = {}, {}, {}
        for l, q in self.coords.items():
            d = self.dist(p, q)
            if math.isinf(r):
                must[l] = d
                continue
            if abs(d - r) <= self.band_node(r):
                if not self.latlon:
                    c = self.exact_cmp_node(p, l, r)
                    if c == 0:
                        mustnot[l] = d  # exactly at the radius: strictly-below excludes it
                        continue
                dc[l] = d
            elif d < r:
                must[l] = d
            else:
                mustnot[l] = d
        return must, dc, mustnot

    def edges_within(self, p, r):
        must, dc, mustnot = {}, {}, {}
        for e in self.edges:
            d, t, q = self.pt_edge(p, e)
            if math.isinf(r):
                must[e] = (d, t, q)
                continue
            if abs(d - r) <= self.band_edge(r):
                if not self.latlon and t in (0.0, 1.0):
                    # exact equality is only judged when the nearest point is an end point: an interior
                    # projection goes through an inexact division, so the implementation may legitimately be
                    # one ulp below the radius although the exact distance equals it
                    c = self.exact_cmp_edge(p, e, r)
                    if c == 0:
                        mustnot[e] = (d, t, q)
                        continue
                dc[e] = (d, t, q)
            elif d < r:
                must[e] = (d, t, q)
            else:
                mustnot[e] = (d, t, q)
        return must, dc, mustnot

    def bbox(self):
        ys = [p[0] for p in self.coords.values()]
        xs = [p[1] for p in self.coords.values()]
        return min(ys), min(xs), max(ys), max(xs)

    def nodes_in_box(self, bb):
        y0, x0, y1, x1 = bb
        return {l for l, p in self.coords.items() if y0 <= p[0] <= y1 and x0 <= p[1] <= x1}

    def out_nbrs(self, l):
        return [b for b in self.adj.get(l, []) if b in self.coords]
