"""Monitors attached to the real classes from the harness (no source hooks in the repository).

* lattice_violations   invariant-at-a-hook: walks the live Viterbi lattice at a quiescent point (C09)
* WindowMonitor        online monitor of the pruning bookkeeping at every expansion boundary (C07)
* classify_exception   totality monitor: origin of an exception escaping a public call (C17)
* run_history          executes an operation history on one matcher, calling observers after each op
"""
import math
import os
import traceback

from . import env
from leuvenmapmatching.matcher import base as B


# ------------------------------------------------------------------------------ lattice invariants
def lattice_violations(m, tol=1e-12):
    out = []
    lat = m.lattice
    if lat is None:
        return out, 0
    n = 0
    for i, col in lat.items():
        if col.obs_idx != i:
            out.append(("column-index", f"column filed under {i} claims obs_idx {col.obs_idx}"))
        for k, layer in enumerate(col.o):
            for key, e in layer.items():
                n += 1
                tag = f"entry {key} in column {i} layer {k}"
                if e.key != key or e.obs != i or e.obs_ne != k:
                    out.append(("misfiled", f"{tag} claims key {e.key} obs {e.obs} depth {e.obs_ne}"))
                    continue
                if math.isnan(e.logprob):
                    out.append(("nan-probability", tag))
                    continue
                if not (e.logprob <= 0):
                    out.append(("probability-above-one", f"{tag} logprob {e.logprob!r}"))
                if i == 0 and k == 0:
                    if len(e.prev) != 0:
                        out.append(("first-column-has-predecessor", tag))
                    if e.length != 1:
                        out.append(("length", f"{tag} length {e.length} expected 1"))
                    continue
                if len(e.prev) == 0:
                    out.append(("no-predecessor", tag))
                    continue
                for p in e.prev:
                    try:
                        q = lat[p.obs].o[p.obs_ne][p.key]
                    except (KeyError, IndexError):
                        out.append(("predecessor-not-in-lattice", f"{tag} -> {p.key}"))
                        continue
                    if q is not p:
                        out.append(("predecessor-is-not-the-stored-object", f"{tag} -> {p.key}"))
                        continue
                    if k > 0:
                        if not (p.obs == i and p.obs_ne == k - 1):
                            out.append(("predecessor-layer", f"{tag} -> {p.key}"))
                    else:
                        if not (p.obs == i - 1):
                            out.append(("predecessor-column", f"{tag} -> {p.key}"))
                    if e.logprob > p.logprob + tol * max(1.0, abs(p.logprob)):
                        out.append(("more-probable-than-predecessor", f"{tag} logprob {e.logprob!r} > predecessor {p.key} {p.logprob!r}"))
                    exp_len = p.length + (1 if k == 0 else 0)
                    if e.length != exp_len:
                        out.append(("length", f"{tag} length {e.length} expected {exp_len}"))
                    if (not e.stop) and p.stop:
                        out.append(("live-with-stopped-predecessor", f"{tag} -> {p.key}"))
    return out, n


# ------------------------------------------------------------------------------- write/expand stamps
class StampMonitor:
    """Logical clock on lattice entries (monitor-side, keyed by id()): when an entry was last written (created or replaced in
    place) and when it was last expanded (next() called on it).  Used by C02 to classify a stale child: a state whose
    predecessor on the path was replaced AFTER the state itself was written."""

    def __init__(self):
        self.clock = 0
        self.w = {}
        self.x = {}
        self.wround = {}   # expansion round (matcher.expand_now) in which an entry was last replaced in place
        self.xk = {}   # last expansion of ANY object filed under a lattice key (a candidate object that was merged into the
        #                stored entry of that key is expanded in its place by the non-emitting search)
        self.installed = False

    def reset(self):
        self.w.clear()
        self.x.clear()
        self.xk.clear()
        self.wround.clear()

    def install(self):
        mon = self
        self.orig_next = B.BaseMatching.next
        self.orig_first = B.BaseMatching.first.__func__
        self.orig_upd = B.BaseMatching._update_inner

        def nxt(self_e, *a, **kw):
            mon.clock += 1
            mon.x[id(self_e)] = mon.clock
            try:
                mon.xk[self_e.key] = mon.clock
            except Exception:
                pass
            r = mon.orig_next(self_e, *a, **kw)
            if r is not None:
                mon.clock += 1
                mon.w[id(r)] = mon.clock
            return r

        def first(cls, *a, **kw):
            r = mon.orig_first(cls, *a, **kw)
            if r is not None:
                mon.clock += 1
                mon.w[id(r)] = mon.clock
            return r

        def upd(self_e, m_other):
            mon.clock += 1
            mon.w[id(self_e)] = mon.clock
            try:
                mon.wround[id(self_e)] = self_e.matcher.expand_now
            except Exception:
                pass
            return mon.orig_upd(self_e, m_other)

        # an entry also counts as expanded when the search took it up for expansion but every move was filtered before next()
        # was called (no-revisit rule of non-emitting runs, going-back filters): the two non-emitting steps iterate a dict
        # of the entries they expand
        self.orig_ne_inner = B.BaseMatcher._match_non_emitting_states_inner
        self.orig_ne_end = B.BaseMatcher._match_non_emitting_states_end

        def _mark(matcher, cur_lattice):
            try:
                for m_ in cur_lattice.values():
                    if not (m_.stop or m_.delayed > matcher.expand_now):
                        mon.clock += 1
                        mon.x[id(m_)] = mon.clock
                        mon.xk[m_.key] = mon.clock
            except Exception:
                pass

        def ne_inner(self_m, cur_lattice, *a, **kw):
            _mark(self_m, cur_lattice)
            return mon.orig_ne_inner(self_m, cur_lattice, *a, **kw)

        def ne_end(self_m, cur_lattice, *a, **kw):
            _mark(self_m, cur_lattice)
            return mon.orig_ne_end(self_m, cur_lattice, *a, **kw)

        B.BaseMatching.next = nxt
        B.BaseMatching.first = classmethod(first)
        B.BaseMatching._update_inner = upd
        B.BaseMatcher._match_non_emitting_states_inner = ne_inner
        B.BaseMatcher._match_non_emitting_states_end = ne_end
        self.installed = True

    def uninstall(self):
        if self.installed:
            B.BaseMatching.next = self.orig_next
            B.BaseMatching.first = classmethod(self.orig_first)
            B.BaseMatching._update_inner = self.orig_upd
            B.BaseMatcher._match_non_emitting_states_inner = self.orig_ne_inner
            B.BaseMatcher._match_non_emitting_states_end = self.orig_ne_end
            self.installed = False


# ---------------------------------------------------------------------- non-emitting filter invariant
def ne_filter_violations(m, any_round=False):
    """After a FRESH match (round 0; or, with any_round=True, after extension-only histories WITHOUT width pruning, where
    every pair of columns is still processed exactly once, emitting step first): a non-emitting candidate for a node/edge s between observations i and i+1 is only
    kept when it is closer to the observation segment than the candidate for s that the emitting step created at
    observation i+1 (strictly closer for node states, not farther by more than 1e-8 for edge states) - irrespective of
    whether that candidate was postponed by the width pruning.  This is what keeps the search space of a pruned run
    inside that of the unpruned run.  -> (violations, number of non-emitting entries compared)"""
    out = []
    n = 0
    lat = m.lattice
    if lat is None or (m.expand_now != 0 and not any_round):
        return out, n
    for i in sorted(lat):
        if i + 1 not in lat:
            continue
        nxt = {}
        for e in lat[i + 1].values(0):
            if e.stop:
                continue
            preds = list(e.prev) + list(e.prev_other)
            if any(p.obs == i and p.obs_ne == 0 for p in preds):
                nxt[e.shortkey] = e
        if not nxt:
            continue
        for k in range(1, len(lat[i].o)):
            for x in lat[i].o[k].values():
                if x.stop:
                    continue
                e = nxt.get(x.shortkey)
                if e is None:
                    continue
                n += 1
                if isinstance(x.shortkey, tuple):
                    ok = x.dist_obs <= e.dist_obs + 1e-8
                else:
                    ok = x.dist_obs < e.dist_obs
                if not ok:
                    out.append(("non-emitting-candidate-kept-although-not-closer-than-the-next-observations-candidate",
                                f"{x.key} dist {x.dist_obs!r} vs {e.key} dist {e.dist_obs!r} (delayed={e.delayed})"))
    return out, n


# -------------------------------------------------------------------------------- window monitor
class WindowMonitor:
    """Online monitor of width pruning.  Installed on BaseMatcher/BaseMatching class attributes;
    observes, at the moment a lattice column (or non-emitting layer) is expanded, which candidates
    are expanded now (A: live, delayed <= round) and which are postponed (P: live, delayed > round),
    and on which parents `next()` is really called during that window."""

    def __init__(self, successors_of=None):
        self.viol = []
        self.cnt = dict(windows=0, windows_with_postponed=0, ne_windows=0, ne_windows_with_postponed=0,
                        next_calls=0, tie_extension_windows=0, parents_checked=0)
        self.installed = False
        self.window = None
        self.successors_of = successors_of

    def _snapshot(self, matcher, entries, where):
        live = [m for m in entries if not m.stop]
        if not live:
            return None
        r = matcher.expand_now
        W = matcher.max_lattice_width
        A = [m for m in live if m.delayed <= r]
        P = [m for m in live if m.delayed > r]
        self.cnt["windows"] += 1
        if where[0] == "ne":
            self.cnt["ne_windows"] += 1
        if P:
            self.cnt["windows_with_postponed"] += 1
            if where[0] == "ne":
                self.cnt["ne_windows_with_postponed"] += 1
        if W:
            for a in A:
                rank = sum(1 for x in live if x.logprob > a.logprob)
                if rank >= W:
                    self.viol.append(("expanded-candidate-outside-top-W", where,
                                      f"{a.key} logprob {a.logprob!r} has {rank} strictly better live candidates, W={W}"))
                    break
            if len(A) > W:
                self.cnt["tie_extension_windows"] += 1
        if A and P:
            mp, ma = max(p.logprob for p in P), min(a.logprob for a in A)
            if mp >= ma:
                self.viol.append(("postponed-candidate-as-probable-as-an-expanded-one", where,
                                  f"best postponed {mp!r} >= worst expanded {ma!r} (W={W}, round {r})"))
        if W and not P and len(live) > W and len(A) == len(live):
            # everything expanded although more than W live: only legitimate through ties
            lps = sorted((x.logprob for x in live), reverse=True)
            if lps[W - 1] != lps[-1]:
                self.viol.append(("more-than-W-expanded-without-ties", where, f"{len(live)} live, W={W}"))
        return {"where": where, "round": r, "should": {id(m): m for m in live if m.delayed == r},
                "allowed": {id(m) for m in live if m.delayed == r}, "called": set()}

    def install(self):
        mon = self
        self.orig_ms = B.BaseMatcher._match_states
        self.orig_inner = B.BaseMatcher._match_non_emitting_states_inner
        self.orig_next = B.BaseMatching.next

        def ms(self_m, obs_idx, prev_lattice=None, **kw):
            w = None
            if prev_lattice is None:
                w = mon._snapshot(self_m, list(self_m.lattice[obs_idx - 1].values(0)), ("e", obs_idx - 1))
            old = mon.window
            mon.window = w
            try:
                return mon.orig_ms(self_m, obs_idx, prev_lattice=prev_lattice, **kw)
            finally:
                mon._close(self_m, w)
                mon.window = old

        def inner(self_m, cur_lattice, obs_idx, obs, obs_next, nb_ne, lattice_best, lattice_ne):
            w = None
            if nb_ne > 1:
                w = mon._snapshot(self_m, list(cur_lattice.values()), ("ne", obs_idx, nb_ne - 1))
            old = mon.window
            mon.window = w
            try:
                return mon.orig_inner(self_m, cur_lattice, obs_idx, obs, obs_next, nb_ne, lattice_best, lattice_ne)
            finally:
                mon._close(self_m, w, ne=True)
                mon.window = old

        def nxt(self_e, *a, **kw):
            mon.cnt["next_calls"] += 1
            w = mon.window
            if w is not None:
                w["called"].add(id(self_e))
                if w["where"][0] != "end" and id(self_e) not in w["allowed"] and (self_e.obs, self_e.obs_ne) == _where_key(w["where"]):
                    mon.viol.append(("postponed-or-stopped-candidate-was-expanded", w["where"],
                                     f"next() called on {self_e.key} delayed={self_e.delayed} stop={self_e.stop} in round {w['round']}"))
            return mon.orig_next(self_e, *a, **kw)

        self.orig_end = B.BaseMatcher._match_non_emitting_states_end

        def end(self_m, cur_lattice, obs_idx, obs_next, lattice_best, expand=False):
            # the step that links the candidates of a non-emitting layer to the next observation: every live candidate that
            # is not postponed (delayed <= round) and has a successor the search may take is expanded here
            r = self_m.expand_now
            should = {}
            for m in cur_lattice.values():
                if m.stop or m.delayed > r:
                    continue
                try:
                    if m.edge_m.l2 is not None:
                        nb = self_m.map.edges_nbrto((m.edge_m.l1, m.edge_m.l2)) or []
                        ok = any(l2 != m.edge_m.l1 and l2 != m.edge_m.l2 and not self_m._node_in_prev_ne(m, l2) for _, _, l2, _ in nb)
                    else:
                        nb = self_m.map.nodes_nbrto(m.edge_m.l1) or []
                        ok = any(l != m.edge_m.l1 and not self_m._node_in_prev_ne(m, l) for l, _ in nb)
                except Exception:
                    ok = False
                if ok:
                    should[id(m)] = m
            w = {"where": ("end", obs_idx - 1), "round": r, "should": should, "allowed": set(should), "called": set()}
            old = mon.window
            mon.window = w
            try:
                return mon.orig_end(self_m, cur_lattice, obs_idx, obs_next, lattice_best, expand=expand)
            finally:
                mon.window = old
                mon.cnt["end_windows"] = mon.cnt.get("end_windows", 0) + 1
                for i_, m in should.items():
                    mon.cnt["end_parents_checked"] = mon.cnt.get("end_parents_checked", 0) + 1
                    if m.delayed < r:
                        mon.cnt["end_parents_from_earlier_rounds"] = mon.cnt.get("end_parents_from_earlier_rounds", 0) + 1
                    if i_ not in w["called"]:
                        mon.viol.append(("selected-candidate-not-linked-to-next-observation", w["where"],
                                         f"{m.key} delayed={m.delayed} (round {r}), logprob {m.logprob!r}"))
                        break

        B.BaseMatcher._match_states = ms
        B.BaseMatcher._match_non_emitting_states_inner = inner
        B.BaseMatcher._match_non_emitting_states_end = end
        B.BaseMatching.next = nxt
        self.installed = True

    def _close(self, matcher, w, ne=False):
        if w is None or ne:
            return
        # every live candidate of the current round that has a successor in the raw graph must have been expanded
        if self.successors_of is None:
            return
        for i, m in w["should"].items():
            self.cnt["parents_checked"] += 1
            if i not in w["called"] and self.successors_of(matcher, m):
                self.viol.append(("candidate-of-this-round-not-expanded", w["where"], f"{m.key} delayed={m.delayed}"))

    def uninstall(self):
        if self.installed:
            B.BaseMatcher._match_states = self.orig_ms
            B.BaseMatcher._match_non_emitting_states_inner = self.orig_inner
            B.BaseMatcher._match_non_emitting_states_end = self.orig_end
            B.BaseMatching.next = self.orig_next
            self.installed = False


def _where_key(where):
    if where[0] == "e":
        return (where[1], 0)
    return (where[1], where[2])


# --------------------------------------------------------------------------- exception classifier
def classify_exception(exc):
    """(type name, innermost repository function, message stem)"""
    tb = traceback.extract_tb(exc.__traceback__)
    fn = "outside-repository"
    root = os.path.join(env.REPO, "leuvenmapmatching") + os.sep
    for fr in tb:
        if fr.filename.startswith(root):
            fn = f"{os.path.basename(fr.filename)[:-3]}.{fr.name}"
    msg = str(exc)
    stem = "".join(ch if not ch.isdigit() else "#" for ch in msg)[:60]
    import re
    stem = re.sub(r"#[#.e+\-]*", "#", stem)
    stem = re.sub(r"\s+", "-", stem.strip())
    return type(exc).__name__, fn, stem


# ----------------------------------------------------------------------------- operation histories
def run_history(matcher, trace, ops, after=None):
    """ops: list of dicts {"op": "match", "k": n, "unique": bool} | {"op": "extend", "k": n} |
    {"op": "widen", "w": W} | {"op": "cwd"} (continue_with_distance, only issued after an early stop) .
    `after(i, op, result, exc)` is called after each operation.  Returns list of (op, result, exc)."""
    log = []
    for i, op in enumerate(ops):
        res, exc = None, None
        try:
            o = op["op"]
            if o == "pre":
                # another trace on the same matcher object first (the object is reused between traces)
                res = matcher.match([tuple(p) for p in op["trace"]], unique=op.get("unique", False))
            elif o == "match":
                res = matcher.match(trace[:op["k"]], unique=op.get("unique", False))
            elif o == "extend":
                res = matcher.match(trace[:op["k"]], unique=op.get("unique", False), expand=True)
            elif o == "widen":
                res = matcher.increase_max_lattice_width(op["w"], unique=op.get("unique", False))
            elif o == "cwd":
                if matcher.early_stop_idx is not None and matcher.early_stop_idx > 0 and matcher.lattice_best:
                    matcher.continue_with_distance()
                    res = "cwd"
                else:
                    res = "cwd-skipped"
            else:
                raise ValueError(o)
        except Exception as e:  # recorded; the lattice is still inspected
            exc = e
        log.append((op, res, exc))
        if after is not None:
            after(i, op, res, exc)
    return log
