"""Seeded workload generators: road maps, traces, matcher configurations, operation histories.

Everything returned is JSON-serialisable; a case can be replayed from its dict alone.

map spec  {"nodes": [[label, [y, x]], ...], "edges": [[a, b], ...], "latlon": bool,
           "linked": [[[a, b], [c, d]], ...] (optional), "kind": str}
          node order = listing order, edge order = neighbour order; labels are ints or strings.
trace     [[y, x], ...] or [[y, x, t], ...]
config    {"family": "simple"|"simple_nodes"|"distance", "non_emitting": bool, "agb": bool,
           "width": int|None, "obs_noise": float, "obs_noise_ne": float|None, "dist_noise": float|None,
           "ne_factor": float, "restrained_ne": bool, "max_dist": float|None, "max_dist_init": float|None,
           "min_prob_norm": float|None}
"""
import math


# --------------------------------------------------------------------------------------------- maps
def _finish(pts, und_edges, rng, oneway_p, labels="int", kind="random", extra_edges=()):
    n = len(pts)
    if labels == "int":
        lab = list(range(n))
    elif labels == "intperm":
        # the integers 0..n-1 in random order: label 0 (falsy) anywhere on the map, not only at the first node created
        lab = list(range(n))
        rng.shuffle(lab)
    elif labels == "gap":
        base = rng.randint(1, 50)
        lab = [base + 37 * i + rng.randint(0, 5) for i in range(n)]
    elif labels == "str":
        lab = ["N%d" % i for i in range(n)]
    elif labels == "nested":
        # names that contain each other and the separator used in display strings ("x", "x-x", "x-x-x", ...), in random
        # order: any identification of a road by a joined string instead of its pair of labels shows
        ch = rng.choice(["x", "1", "a-b"])
        lab = ["-".join([ch] * (i + 1)) for i in range(n)]
        rng.shuffle(lab)
    else:  # strrev: lexical order reversed w.r.t. creation order
        lab = ["n%03d" % (n - i) for i in range(n)]
    edges = []
    for a, b in und_edges:
        if a == b:
            continue
        r = rng.random()
        if r < oneway_p / 2:
            cand = [(a, b)]
        elif r < oneway_p:
            cand = [(b, a)]
        else:
            cand = [(a, b), (b, a)]
        for e in cand:
            if e not in edges:
                edges.append(e)
    for e in extra_edges:
        if e not in edges:
            edges.append(e)
    order = list(range(n))
    if rng.random() < 0.5:
        rng.shuffle(order)
    if rng.random() < 0.5:
        rng.shuffle(edges)
    return {"nodes": [[lab[i], [pts[i][0], pts[i][1]]] for i in order],
            "edges": [[lab[a], lab[b]] for a, b in edges], "latlon": False, "kind": kind, "created": list(lab)}


def _backbone(n, rng):
    order = list(range(n))
    rng.shuffle(order)
    und = [(a, b) for a, b in zip(order, order[1:])]
    for _ in range(rng.randint(0, n)):
        a, b = rng.sample(order, 2)
        if (a, b) not in und and (b, a) not in und:
            und.append((a, b))
    return und


def map_random(rng, n=None, oneway_p=0.3, labels="int"):
    n = n or rng.randint(2, 9)
    pts = []
    while len(pts) < n:
        p = (round(rng.uniform(0, 5), 2), round(rng.uniform(0, 5), 2))
        if p not in pts:
            pts.append(p)
    return _finish(pts, _backbone(n, rng), rng, oneway_p, labels, "random")


def map_grid(rng, n=None, oneway_p=0.3, labels="int", step=1.0):
    """dyadic coordinates (multiples of 1/8 after scaling by step): exact ties, parallel and collinear roads."""
    n = n or rng.randint(2, 9)
    pts = []
    while len(pts) < n:
        p = (rng.randint(0, 4) * step, rng.randint(0, 4) * step)
        if p not in pts:
            pts.append(p)
    # prefer axis neighbours
    und = []
    for i in range(n):
        for j in range(i + 1, n):
            d = abs(pts[i][0] - pts[j][0]) + abs(pts[i][1] - pts[j][1])
            if d <= step * 1.0001 and rng.random() < 0.8:
                und.append((i, j))
    for e in _backbone(n, rng):
        if e not in und and (e[1], e[0]) not in und and rng.random() < 0.6:
            und.append(e)
    return _finish(pts, und, rng, oneway_p, labels, "grid")


def map_chain(rng, n=None, oneway_p=0.2, labels="int", dyadic=False):
    """a chain of short edges with a few branches: with sparse observations non-emitting states are needed."""
    n = n or rng.randint(4, 12)
    pts = [(0.0, 0.0)]
    ang = rng.uniform(0, 2 * math.pi)
    for _ in range(n - 1):
        if dyadic:
            dy, dx = rng.choice([(0, 1), (0, 1), (1, 0), (0.5, 0.5), (0, 0.5)])
            p = (pts[-1][0] + dy, pts[-1][1] + dx)
        else:
            ang += rng.uniform(-0.6, 0.6)
            L = rng.uniform(0.4, 1.2)
            p = (round(pts[-1][0] + L * math.sin(ang), 3), round(pts[-1][1] + L * math.cos(ang), 3))
        pts.append(p)
    und = [(i, i + 1) for i in range(n - 1)]
    nb = rng.randint(0, 2)
    for _ in range(nb):
        i = rng.randrange(n)
        if dyadic:
            q = (pts[i][0] + rng.choice([1, -1, 0.5]), pts[i][1] + rng.choice([0, 0.5]))
        else:
            q = (round(pts[i][0] + rng.uniform(-1, 1), 3), round(pts[i][1] + rng.uniform(-1, 1), 3))
        if q not in pts:
            pts.append(q)
            und.append((i, len(pts) - 1))
    if rng.random() < 0.3 and n > 3:
        a, b = rng.sample(range(n), 2)
        if abs(a - b) > 1:
            und.append((a, b))
    m = _finish(pts, und, rng, oneway_p, labels, "chain")
    m["chain_len"] = n
    return m


def add_hostile(rng, m, selfloop_p=0.25, zero_p=0.15):
    """self-listed neighbours (the repository's own tests list a node as its own neighbour) and
    zero-length roads (two nodes at one location)."""
    labs = [l for l, _ in m["nodes"]]
    if rng.random() < selfloop_p:
        for l in rng.sample(labs, min(len(labs), rng.randint(1, 2))):
            m["edges"].insert(rng.randrange(len(m["edges"]) + 1), [l, l])
        m["kind"] += "+self"
    if rng.random() < zero_p and all(isinstance(l, int) for l in labs):
        l, p = rng.choice(m["nodes"])
        new = max(labs) + 1
        m["nodes"].append([new, list(p)])
        m["edges"].append([l, new])
        if rng.random() < 0.7:
            m["edges"].append([new, l])
        # connect onwards so that the zero-length road is on a route
        others = [x for x in labs if x != l]
        if others and rng.random() < 0.7:
            o = rng.choice(others)
            m["edges"].append([new, o])
            m["edges"].append([o, new])
        m["kind"] += "+zero"
    return m


def transform_map(m, scale=1.0, off=(0.0, 0.0)):
    out = dict(m)
    out["nodes"] = [[l, [p[0] * scale + off[0], p[1] * scale + off[1]]] for l, p in m["nodes"]]
    return out


def transform_trace(tr, scale=1.0, off=(0.0, 0.0)):
    return [[p[0] * scale + off[0], p[1] * scale + off[1]] + list(p[2:]) for p in tr]


def gen_map(rng, kinds=("random", "grid", "chain"), labels=("int",), hostile=True, n=None, oneway_p=None):
    kind = rng.choice(kinds)
    lab = rng.choice(labels)
    ow = rng.choice([0.0, 0.3, 0.3, 0.7]) if oneway_p is None else oneway_p
    if kind == "random":
        m = map_random(rng, n, ow, lab)
    elif kind == "grid":
        m = map_grid(rng, n, ow, lab, step=rng.choice([1.0, 1.0, 0.5, 2.0]))
    elif kind == "chain":
        m = map_chain(rng, n, ow, lab)
    else:
        m = map_chain(rng, n, ow, lab, dyadic=True)
        m["kind"] = "chain_dyadic"
    if not m["edges"]:
        a, b = m["nodes"][0][0], m["nodes"][-1][0]
        if a != b:
            m["edges"] = [[a, b], [b, a]]
    if hostile:
        add_hostile(rng, m)
    return m


# ------------------------------------------------------------------------------------------- lookups
def coords(m):
    return {l: (p[0], p[1]) for l, p in m["nodes"]}


def adjacency(m):
    """label -> ordered list of neighbour labels (as listed, may contain the node itself)."""
    adj = {l: [] for l, _ in m["nodes"]}
    for a, b in m["edges"]:
        if b not in adj[a]:
            adj[a].append(b)
    return adj


def graph_dict(m):
    c, adj = coords(m), adjacency(m)
    return {l: (c[l], list(adj[l])) for l, _ in m["nodes"]}


def real_edges(m):
    """directed edges that are roads: distinct end labels, both nodes exist."""
    c = coords(m)
    out = []
    for a, b in m["edges"]:
        if a != b and a in c and b in c and (a, b) not in out:
            out.append((a, b))
    return out


# -------------------------------------------------------------------------------------------- traces
def gen_trace(rng, m, k=None, noise=None, kind=None):
    c, adj = coords(m), adjacency(m)
    labs = [l for l, _ in m["nodes"]]
    k = k or rng.randint(1, 10)
    if noise is None:
        noise = rng.choice([0.0, 0.05, 0.2, 0.5])
    kind = kind or rng.choice(["walk", "walk", "walk", "sparse", "outlier", "on_node", "repeat", "single", "dyadic", "parked"])
    cur = rng.choice(labs)
    if kind == "parked":
        # a vehicle that does not move: all fixes scatter around one node, preferably one that lists itself as a neighbour
        selfl = [l for l in labs if l in adj.get(l, [])]
        if selfl and rng.random() < 0.7:
            cur = rng.choice(selfl)
        nz = rng.choice([0.0, 0.02, 0.1, 0.3])
        return [[c[cur][0] + rng.gauss(0, nz), c[cur][1] + rng.gauss(0, nz)] for _ in range(max(1, k))]
    pts = []
    pos = c[cur]
    steps = k * (3 if kind == "sparse" else 1)
    for _ in range(steps):
        nb = [x for x in adj[cur] if x != cur]
        if nb and rng.random() < 0.85:
            nxt = rng.choice(nb)
            t = rng.choice([0.0, 0.25, 0.5, 0.75, 1.0]) if kind in ("on_node", "dyadic") else rng.random()
            a, b = c[cur], c[nxt]
            pos = (a[0] + t * (b[0] - a[0]), a[1] + t * (b[1] - a[1]))
            if t > 0.5 or rng.random() < 0.5:
                cur = nxt
        if kind in ("on_node", "dyadic"):
            q = (pos[0] + rng.choice([0, 0, 0.25, -0.25, 0.5]), pos[1] + rng.choice([0, 0, 0.25, -0.5])) if kind == "dyadic" else pos
        else:
            q = (pos[0] + rng.gauss(0, noise), pos[1] + rng.gauss(0, noise))
        pts.append([q[0], q[1]])
    if kind == "sparse":
        pts = pts[::3]
    if kind == "single":
        pts = pts[:1]
    if kind == "repeat" and len(pts) > 1:
        j = rng.randrange(1, len(pts))
        pts[j] = list(pts[j - 1])
    if kind == "outlier" and pts:
        for _ in range(rng.choice([1, 1, 2])):
            j = rng.choice([0, 1, len(pts) - 1, rng.randrange(len(pts))])
            j = min(j, len(pts) - 1)
            pts[j] = [pts[j][0] + rng.choice([-6.0, 6.0, 3.0]), pts[j][1] + rng.choice([0.0, 4.0])]
    return pts[:max(1, k)]


def with_time(tr, t0=1000.0, dt=10.0):
    return [[p[0], p[1], t0 + dt * i] for i, p in enumerate(tr)]


# --------------------------------------------------------------------------------------------- configs
FAMILIES = ("simple", "simple_nodes", "distance")
# the third matcher class of the repository (Newson-Krumm style scores, edge states); used by the structure-level checks
# (alignment, walk, cut-offs, lattice invariants, totality, log level, determinism, incremental), not by the score oracles
FAMILIES_ALL = ("simple", "simple_nodes", "distance", "newsonkrumm")


def gen_cfg(rng, families=FAMILIES, ne=None, width=False, agb=None, cut=True, unit=1.0):
    fam = rng.choice(families)
    cfg = {"family": fam,
           "non_emitting": (rng.random() < 0.6) if ne is None else ne,
           "agb": (rng.random() < 0.5) if agb is None else agb,
           "width": None,
           "obs_noise": unit * rng.choice([0.25, 0.5, 1.0, 2.0, 1.3]),
           "obs_noise_ne": None, "dist_noise": None, "ne_factor": 0.75, "restrained_ne": True,
           "max_dist": None, "max_dist_init": None, "min_prob_norm": None}
    if cfg["non_emitting"]:
        cfg["obs_noise_ne"] = rng.choice([None, None, unit * 1.0, unit * 3.0, unit * 10.0])
        cfg["ne_factor"] = rng.choice([0.75, 0.75, 0.5, 0.9, 1.0])
        if fam == "distance":
            cfg["restrained_ne"] = rng.random() < 0.6
    if fam == "distance" and rng.random() < 0.5:
        cfg["dist_noise"] = unit * rng.choice([0.5, 1.0, 3.0])
    if fam == "distance" and cfg["non_emitting"] and rng.random() < 0.3:
        cfg["dist_noise_ne"] = unit * rng.choice([0.5, 2.0, 6.0])
    if fam == "newsonkrumm":
        cfg["beta"] = rng.choice([None, 1 / 6, 1.0, 5.0]) if unit == 1.0 else None
        if cfg["non_emitting"] and unit == 1.0 and rng.random() < 0.3:
            cfg["beta_ne"] = rng.choice([0.5, 2.0, 10.0])
    if width is True:
        cfg["width"] = rng.choice([1, 1, 2, 2, 3, 4])
    elif width == "maybe":
        cfg["width"] = rng.choice([None, None, 1, 2, 3])
    if cut:
        cfg["max_dist"] = rng.choice([None, None, unit * 0.5, unit * 1.0, unit * 3.0])
        cfg["max_dist_init"] = rng.choice([None, None, None, unit * 0.5, unit * 2.0])
        cfg["min_prob_norm"] = rng.choice([None, None, 0.5, 0.1, 0.001])
    return cfg


def gen_sparse_chain_case(rng, labels=("int",)):
    """chain map + every 2nd-4th node observed: non-emitting states end up on the best path."""
    m = map_chain(rng, rng.randint(5, 12), oneway_p=rng.choice([0.0, 0.2]), labels=rng.choice(labels),
                  dyadic=rng.random() < 0.3)
    c = coords(m)
    # the chain is nodes 0..n-1 in creation order; labels differ, so recover by walking the spec order
    labs = list(m["created"]) if m.get("created") else [l for l, _ in sorted(m["nodes"], key=lambda t: _creation_index(t[0]))]
    step = rng.choice([2, 3, 4])
    noise = rng.choice([0.0, 0.02, 0.1])
    main = labs[: m.get("chain_len", len(labs))]
    pts = []
    for l in main[::step]:
        p = c[l]
        pts.append([p[0] + rng.gauss(0, noise), p[1] + rng.gauss(0, noise)])
    if len(pts) < 2:
        pts.append([c[main[-1]][0], c[main[-1]][1]])
    return m, pts


def gen_out_and_back_case(rng, labels=("int",)):
    """chain map with one-way feeders; the vehicle is seen ON the nodes, skips one or two (a non-emitting state is needed),
    then turns around and is seen on a node it skipped: with non-emitting states the predecessor of the far state is a
    non-emitting state on the way back, which is where a model that looks further back than one step shows."""
    m = map_chain(rng, rng.randint(4, 9), oneway_p=rng.choice([0.0, 0.0, 0.2]), labels=rng.choice(labels), dyadic=rng.random() < 0.5)
    c = coords(m)
    labs = list(m["created"]) if m.get("created") else [l for l, _ in sorted(m["nodes"], key=lambda t: _creation_index(t[0]))]
    main = labs[: m.get("chain_len", len(labs))]
    k = rng.randint(2, min(4, len(main) - 1))
    # one-way feeder streets ending in chain nodes; the first starts beside the first observation and ends in the far node,
    # so that without non-emitting states the far node is reached over it
    nid = max([l for l in labs if isinstance(l, int)] + [0]) + 1
    if all(isinstance(l, int) for l in labs):
        p0 = c[main[0]]
        off = rng.choice([0.9, -0.9, 0.5, 0.3, 1.2])
        m["nodes"].append([nid, [p0[0] + off, p0[1]] if abs(c[main[1]][0] - p0[0]) < abs(c[main[1]][1] - p0[1]) else [p0[0], p0[1] + off]])
        m["edges"].append([nid, main[k]])
        nid += 1
        for _ in range(rng.randint(0, 2)):
            t = rng.choice(main)
            p = c[t]
            m["nodes"].append([nid, [p[0] + rng.choice([0.9, -0.9, 0.5]), p[1] - rng.choice([2.0, 4.0, 1.0])]])
            m["edges"].append([nid, t])
            nid += 1
    idx = [0, k] + [j for j in range(k - 1, max(-1, k - 1 - rng.randint(1, 2)), -1)]
    if rng.random() < 0.4 and k + 2 < len(main):
        idx.append(k + 2)
    noise = rng.choice([0.0, 0.0, 0.02])
    pts = [[c[main[j]][0] + rng.gauss(0, noise), c[main[j]][1] + rng.gauss(0, noise)] for j in idx]
    if rng.random() < 0.4:
        # ... and comes back to a position it was seen at before, bit for bit (a receiver that snaps to a grid)
        off = [rng.choice([0.0, 0.25, -0.25, 0.75]), rng.choice([0.0, -0.25, 0.5])]
        pts = [[p[0] + off[0], p[1] + off[1]] for p in pts]
        pts.append(list(pts[rng.choice([0, 0, 1])]))
    return m, pts


def _creation_index(label):
    if isinstance(label, int):
        return label
    digits = "".join(ch for ch in str(label) if ch.isdigit())
    v = int(digits) if digits else 0
    return -v if str(label).startswith("n") else v


# ------------------------------------------------------------------------------- operation histories
def add_pre_trace(rng, case, p=0.25):
    """with probability p the history starts with a plain match() of ANOTHER trace on the same matcher object
    (often one that stops early): results must not depend on what the object matched before."""
    if rng.random() < p:
        pre = gen_trace(rng, case["map"], k=rng.randint(2, 7), kind=rng.choice(["walk", "outlier", "outlier", "sparse"]))
        if rng.random() < 0.6 and len(pre) >= 2:
            j = rng.randrange(1, len(pre))
            pre[j] = [pre[j][0] + 9.0, pre[j][1] - 7.0]
        case["ops"] = [{"op": "pre", "trace": pre, "unique": False}] + case["ops"]
    if rng.random() < p:
        # ... and/or ends with a plain match() of another trace (after whatever expansion rounds the history contained):
        # a fresh plain match must not inherit anything from the rounds before it
        post = gen_trace(rng, case["map"], k=rng.randint(1, 6), kind=rng.choice(["walk", "walk", "outlier", "sparse"]))
        case["ops"] = case["ops"] + [{"op": "pre", "trace": post, "unique": False}]
    return case


def gen_history(rng, n_obs, width, allow_cwd=False, allow_restart=True, max_ops=4, unique=None):
    """match(prefix) followed by a random sequence of extend / widen / restart / continue-with-distance(+expand).
    Widths are non-decreasing; `cwd` is only *issued* by the executor after an early stop (its documented use)."""
    k = rng.randint(1, n_obs)
    if rng.random() < 0.4:
        k = n_obs
    uq = (lambda: rng.random() < 0.5) if unique is None else (lambda: unique)
    ops = [{"op": "match", "k": k, "unique": uq()}]
    W = width
    for _ in range(rng.randint(0, max_ops)):
        choices = []
        if k < n_obs:
            choices += ["extend", "extend"]
        if W is not None:
            choices += ["widen", "widen"]
        if allow_restart:
            choices += ["match"]
        if allow_cwd:
            choices += ["cwd"]
        if not choices:
            break
        o = rng.choice(choices)
        if o == "extend":
            k = rng.randint(k + 1, n_obs)
            ops.append({"op": "extend", "k": k, "unique": uq()})
        elif o == "widen":
            W += rng.randint(0, 2)
            ops.append({"op": "widen", "w": W, "unique": uq()})
        elif o == "match":
            k = rng.randint(1, n_obs)
            ops.append({"op": "match", "k": k, "unique": uq()})
        else:
            ops.append({"op": "cwd"})
            ops.append({"op": "extend", "k": k, "unique": uq()})
    return ops


# ------------------------------------------------------------------------------------- larger maps
def map_large(rng, n=None, oneway_p=0.2, labels="int"):
    """random geometric graph (each node linked to its 2-3 nearest neighbours plus a spanning chain): 40-120 nodes.
    Only used by the invariant monitors (C03, C04, C07-online, C09), which need no reference optimum."""
    n = n or rng.randint(40, 120)
    side = math.sqrt(n) * 1.2
    pts = []
    while len(pts) < n:
        p = (round(rng.uniform(0, side), 2), round(rng.uniform(0, side), 2))
        if p not in pts:
            pts.append(p)
    und = []
    for i in range(n):
        ds = sorted((math.dist(pts[i], pts[j]), j) for j in range(n) if j != i)
        for _, j in ds[: rng.choice([2, 3])]:
            if (i, j) not in und and (j, i) not in und:
                und.append((i, j))
    m = _finish(pts, und, rng, oneway_p, labels, "large")
    return m


def gen_long_trace(rng, m, k=None, noise=0.15, sparse=1):
    tr = gen_trace(rng, m, k=(k or rng.randint(12, 30)) * sparse, noise=noise, kind="walk")
    return tr[::sparse]


def gen_carriageway_case(rng):
    """Two parallel one-way carriageways A->B and X->Y that are linked (what connect_parallelroads builds), a by-pass S->B
    that ends in the same node as A->B, and a dense trace that drives R-S-A-B, changes to X-Y and continues to Z.  With a
    small max_dist the by-pass is no emitting candidate near B, but a non-emitting chain can reach it."""
    sc = rng.choice([1.0, 1.0, 0.5, 2.0])
    gap = rng.choice([1.5, 2.0, 2.5]) * sc
    j = lambda v: v + rng.uniform(-0.1, 0.1) * sc
    pts = {"R": (-1.2 * sc, 0.0), "S": (0.0, 0.0), "A": (10.0 * sc, 0.0), "B": (10.0 * sc, 10.0 * sc), "D": (10.0 * sc, 20.0 * sc),
           "X": (10.0 * sc + gap, 0.0), "Y": (10.0 * sc + gap, 10.0 * sc), "Z": (10.0 * sc + gap, 20.0 * sc)}
    names = list(pts)
    ids = rng.sample(range(1, 90), len(names))
    lab = dict(zip(names, ids if rng.random() < 0.6 else ["n%d" % v for v in ids]))
    und = [("R", "S"), ("S", "A"), ("S", "B"), ("A", "B"), ("B", "D"), ("X", "Y"), ("Y", "Z")]
    if rng.random() < 0.5:
        und = [("R", "S"), ("S", "B"), ("S", "A"), ("A", "B"), ("B", "D"), ("X", "Y"), ("Y", "Z")]
    edges = [[lab[a], lab[b]] for a, b in und]
    if rng.random() < 0.3:
        edges.append([lab["D"], lab["B"]])
    nodes = [[lab[k], [j(v[0]), j(v[1])]] for k, v in pts.items()]
    if rng.random() < 0.5:
        rng.shuffle(nodes)
    linked = [[[lab["A"], lab["B"]], [lab["X"], lab["Y"]]]]
    if rng.random() < 0.3:
        linked.append([[lab["X"], lab["Y"]], [lab["A"], lab["B"]]])
    m = {"nodes": nodes, "edges": edges, "latlon": False, "kind": "carriageway", "linked": linked}
    tr = [[-1.0 * sc, 0.2 * sc], [rng.choice([4.0, 5.0, 6.0]) * sc, 0.2 * sc], [10.0 * sc + 0.2 * sc, rng.choice([4.0, 5.0, 6.0]) * sc],
          [10.0 * sc + gap - 0.3 * sc, 8.0 * sc], [10.0 * sc + gap + 0.1 * sc, 12.0 * sc]]
    if rng.random() < 0.3:
        tr.append([10.0 * sc + gap, 16.0 * sc])
    cfg = gen_cfg(rng, families=("simple", "distance"), ne=True, width=False, agb=False, cut=False)
    cfg["obs_noise"] = sc * rng.choice([1.0, 1.0, 2.0])
    cfg["obs_noise_ne"] = None
    cfg["max_dist"] = sc * rng.choice([1.5, 1.5, 2.5])
    cfg["max_dist_init"] = rng.choice([None, 0.5 * sc, 1.0 * sc])
    cfg["restrained_ne"] = rng.random() < 0.5
    return {"map": m, "trace": tr, "cfg": cfg}
