"""Regenerates /verif/MANIFEST.json from the property modules (python -m lmmverif.manifest)."""
import importlib
from .shard import dimension_note
import json
import os
import subprocess

HERE = os.path.dirname(os.path.abspath(__file__))
VERIF = os.path.dirname(HERE)
ALL = [f"C{i:02d}" for i in range(1, 21)]
PENDING_REASON = "check not built yet in this revision of /verif (planned, see DESIGN.md section 4); nothing is claimed"


def main():
    checks, na = [], []
    for pid in ALL:
        path = os.path.join(HERE, "props", pid + ".py")
        if not os.path.exists(path):
            na.append({"property_id": pid, "reason": PENDING_REASON})
            continue
        mod = importlib.import_module(f"lmmverif.props.{pid}")
        if getattr(mod, "NOT_CLAIMED", None):
            na.append({"property_id": pid, "reason": mod.NOT_CLAIMED})
            continue
        checks.append({
            "property_id": pid,
            "quick_cmd": f"./check {pid} quick",
            "thorough_cmd": f"./check {pid} thorough",
            "evidence_file": f"/verif/evidence/{pid}.json",
            "replay_cmd_template": f"./check {pid} --replay {{path}}",
            "engine": "lmmverif",
            "level_claimed": {
                "category": "exploration",
                "text": mod.LEVEL_TEXT.replace("{Q}", f"{mod.CASES['quick']:,}").replace("{T}", f"{mod.CASES['thorough']:,}") + dimension_note(mod),
                "design_ref": f"DESIGN.md section 4 ({pid}), sections 3 and 5",
            },
            "level_note": mod.LEVEL_NOTE,
            "technique": mod.TECHNIQUE,
        })
    commits = []
    manifest = {
        "version": 1,
        "setup_cmd": "./setup.sh",
        "hooks": {
            "guard": "LMM_VERIF",
            "enable": "no source hooks: ./check sets LMM_VERIF=1 and attaches every monitor from the harness at import "
                      "time (class/module attribute wrappers, sys.monitoring, sqlite3 trace callbacks); the repository is "
                      "imported from its working tree, there is no build step",
            "baseline_off_cmd": "./baseline.sh",
            "source_commits": commits,
            "add_only": True,
        },
        "engines": [{
            "name": "lmmverif",
            "path": "/verif/lmmverif",
            "serves_properties": [c["property_id"] for c in checks],
            "kind_free_text": "runtime monitoring: generated hostile workloads drive the real code in sharded fresh "
                              "interpreters; monitors (invariants at hooks, reference-model oracles, differential "
                              "sibling executions, exception classifier) decide; three-valued verdicts",
        }],
        "checks": checks,
        "not_applicable": na,
        "notes": "Exit codes of ./check: 0 held on everything observed, 1 VIOLATION (unlisted), 2 INCONCLUSIVE (monitor "
                 "observed too little / harness error). known_findings.json lists recorded defects (status known) and "
                 "repaired ones (status fixed, suppress nothing). LMM_REPO=<dir> points the same commands at a scratch copy "
                 "(used by the mutation self-test only).",
    }
    with open(os.path.join(VERIF, "MANIFEST.json"), "w") as f:
        json.dump(manifest, f, indent=1)
    print(f"MANIFEST.json: {len(checks)} checks, {len(na)} not claimed")


if __name__ == "__main__":
    main()
