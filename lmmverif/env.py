"""Import guard for the code under test.

The package is installed as a *copy* in /venv/site-packages and in /repo/build/lib; every check
must exercise the working tree of LMM_REPO (default /repo).  Importing this module puts LMM_REPO
first on sys.path, forbids byte-code files (so nothing is written into the repository) and
asserts that `leuvenmapmatching` really was loaded from there.
"""
import os
import sys
import logging

sys.dont_write_bytecode = True
REPO = os.path.realpath(os.environ.get("LMM_REPO", "/repo"))
VERIF = os.path.dirname(os.path.dirname(os.path.abspath(__file__)))
GUARD = "LMM_VERIF"  # MANIFEST.hooks.guard; read only by the harness (no hooks live in the repository)

if sys.path[0] != REPO:
    sys.path.insert(0, REPO)
for _k in [k for k in sys.modules if k == "leuvenmapmatching" or k.startswith("leuvenmapmatching.")]:
    del sys.modules[_k]

import leuvenmapmatching  # noqa: E402

_f = os.path.realpath(leuvenmapmatching.__file__)
if not _f.startswith(REPO + os.sep):
    raise ImportError(f"leuvenmapmatching imported from {_f}, expected under {REPO}")

LOGGER_NAME = "be.kuleuven.cs.dtai.mapmatching"
logger = logging.getLogger(LOGGER_NAME)
logger.setLevel(logging.ERROR)
logger.propagate = False
if not logger.handlers:
    logger.addHandler(logging.NullHandler())


def repo_file(rel):
    return os.path.join(REPO, rel)


class debug_level:
    """run a block with the package logger at DEBUG (null handler: records are formatted lazily, but every
    `logger.debug(f"...")` argument and every `isEnabledFor(DEBUG)` branch of the code under test is executed)."""
    def __init__(self, on=True):
        self.on = on

    def __enter__(self):
        if self.on:
            logger.setLevel(logging.DEBUG)
        return self

    def __exit__(self, *a):
        logger.setLevel(logging.ERROR)
        return False


def debug_dimension(p):
    """decorator pair for a property module: `gen` marks a fraction p of the generated cases with case["debug"]=True
    (drawn from the case's own generator, so it replays), `chk` runs such a case with the package logger at DEBUG.
    No result depends on the log level, so every oracle applies unchanged."""
    def gen(gen_case):
        def wrapped(rng, i, tier):
            case = gen_case(rng, i, tier)
            if isinstance(case, dict) and "debug" not in case:
                case["debug"] = rng.random() < p
            return case
        return wrapped

    def chk(check_case):
        def wrapped(ctx, case):
            dbg = isinstance(case, dict) and bool(case.get("debug"))
            if os.environ.get("LMM_FORCE_DEBUG"):
                dbg = True
            if dbg:
                ctx.count("debug_level_cases")
            ctx.case_debug = dbg
            try:
                with debug_level(dbg):
                    return check_case(ctx, case)
            finally:
                ctx.case_debug = False
        return wrapped
    return gen, chk
