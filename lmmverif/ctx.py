"""Per-shard observation context: counters, violations, non-trivial case hashes, samples,
watchdog, anchor-line coverage.  Everything a monitor observes goes through here so that the
evidence file reports what was seen, not that a workload ran."""
import collections
import hashlib
import json
import os
import signal
import sys


class CaseTimeout(BaseException):
    """Raised by the per-case wall-clock watchdog; a timeout is *inconclusive*, never a violation."""


def jhash(obj):
    return hashlib.sha1(json.dumps(obj, sort_keys=True, default=repr).encode()).hexdigest()[:16]


class Ctx:
    MAX_WITNESS_PER_SIG = 6

    def __init__(self, prop, seed, tier, shard=0):
        self.prop = prop
        self.seed = seed
        self.tier = tier
        self.shard = shard
        self.counters = collections.Counter()
        self.viol_counts = collections.Counter()
        self.violations = []
        self.nontrivial = set()
        self.samples = []
        self.records = {}
        self.evaluations = 0
        self.cases = 0
        self.watchdog_hits = 0
        self.errors = []
        self.lines = collections.defaultdict(set)
        self.scratch = None
        self.state = {}

    # --- observations -------------------------------------------------------------------------
    def count(self, key, n=1):
        self.counters[key] += n

    def evaluated(self, n=1):
        """n executions of the code under test were judged by an oracle."""
        self.evaluations += n

    def nontriv(self, key):
        self.nontrivial.add(key if isinstance(key, str) else jhash(key))

    def sample(self, obj, limit=3):
        if len(self.samples) < limit:
            self.samples.append(obj)

    def record(self, key, value):
        self.records[key] = value

    def violation(self, sig, case, why, **extra):
        self.viol_counts[sig] += 1
        if sum(1 for v in self.violations if v["sig"] == sig) < self.MAX_WITNESS_PER_SIG:
            v = {"sig": sig, "case": case, "why": why}
            if getattr(self, "case_debug", False):
                v["log_level"] = "DEBUG"  # the case ran with the package logger at DEBUG: the replay does the same
            if getattr(self, "case_backend", None):
                v["backend"] = self.case_backend
            v.update(extra)
            self.violations.append(v)

    # --- watchdog -----------------------------------------------------------------------------
    def _alarm(self, signum, frame):
        raise CaseTimeout()

    def watchdog(self, seconds):
        ctx = self

        class _W:
            def __enter__(self_w):
                signal.signal(signal.SIGALRM, ctx._alarm)
                signal.setitimer(signal.ITIMER_REAL, seconds)

            def __exit__(self_w, et, ev, tb):
                signal.setitimer(signal.ITIMER_REAL, 0)
                return False
        return _W()

    # --- anchor-line coverage (evidence only) -----------------------------------------------------
    def start_linecov(self, root):
        mon = getattr(sys, "monitoring", None)
        if mon is None:
            return
        root = os.path.join(root, "leuvenmapmatching") + os.sep
        lines = self.lines
        tool = mon.COVERAGE_ID
        try:
            mon.use_tool_id(tool, "lmmverif")
        except ValueError:
            return
        n = len(root)

        def on_line(code, line):
            fn = code.co_filename
            if fn.startswith(root):
                lines[fn[n:]].add(line)
            return mon.DISABLE

        mon.register_callback(tool, mon.events.LINE, on_line)
        mon.set_events(tool, mon.events.LINE)
        self._mon_tool = tool

    def stop_linecov(self):
        mon = getattr(sys, "monitoring", None)
        tool = getattr(self, "_mon_tool", None)
        if mon is None or tool is None:
            return
        mon.set_events(tool, 0)
        mon.register_callback(tool, mon.events.LINE, None)
        mon.free_tool_id(tool)
        self._mon_tool = None

    # --- serialisation -------------------------------------------------------------------------
    def dump(self):
        return {
            "prop": self.prop, "seed": self.seed, "tier": self.tier, "shard": self.shard,
            "counters": dict(self.counters), "viol_counts": dict(self.viol_counts),
            "violations": self.violations, "nontrivial": sorted(self.nontrivial),
            "samples": self.samples, "records": self.records, "evaluations": self.evaluations,
            "cases": self.cases, "watchdog_hits": self.watchdog_hits, "errors": self.errors[:20],
            "lines": {k: sorted(v) for k, v in self.lines.items()},
        }
