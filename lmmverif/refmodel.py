"""Reference HMM for emitting-only, first-order matching (C01, also used by C15/C16 diagnostics).

Written from the documentation and doc-strings of the matchers, not by calling their scoring:
states, start candidates and the successor relation come from the raw graph of the case, the
score formulas are the documented ones, admissibility is the documented stop rule.  The optimum
over admissible walks is computed by dynamic programming (exact for a first-order model: all
walks into one state at one observation have the same length and the same emission, so the
better prefix dominates for every cut-off) and cross-checked by brute-force enumeration of all
walks on tiny instances.

Geometry provider: the distance / projection of an observation on a state is taken from the
map's own primitives (`geo=`), so that every threshold comparison is made on bit-identical
numbers (thresholds equal to an observed distance are a mandatory workload class).  The
primitives themselves are judged by C05/C13/C14 against exact references.
"""
import math

LOG09 = math.log(0.9)
LOG05 = math.log(0.5)


class RefHMM:
    def __init__(self, mspec, cfg, geo_pt_seg, geo_dist, approx_atol=1e-8):
        from . import gen
        self.coords = gen.coords(mspec)
        self.adj = gen.adjacency(mspec)
        self.linked = {}
        for pair in mspec.get("linked") or []:
            (a, b), (c, d) = pair
            self.linked.setdefault((a, b), []).append((c, d))
        self.family = cfg["family"]
        self.only_edges = self.family != "simple_nodes"
        self.obs_noise = cfg["obs_noise"]
        md = cfg.get("max_dist")
        self.max_dist = md if md else math.inf
        mdi = cfg.get("max_dist_init")
        self.max_dist_init = mdi if mdi else self.max_dist
        mp = cfg.get("min_prob_norm")
        self.min_lpn = math.log(mp) if mp else -math.inf
        dn = cfg.get("dist_noise")
        self.dist_noise = dn if dn is not None else self.obs_noise
        self.pt_seg = geo_pt_seg
        self.dist = geo_dist
        self.atol = approx_atol
        self.borderline = False
        self._emis_cache = {}

    # --- graph ------------------------------------------------------------------------------------
    def nbrs(self, n):
        return [b for b in self.adj.get(n, []) if b in self.coords]

    def edges(self):
        seen = set()
        for a in self.coords:
            for b in self.nbrs(a):
                if a != b and (a, b) not in seen:
                    seen.add((a, b))
                    yield (a, b)

    def succ(self, s):
        """states reachable in one emitting step (documented moves)."""
        if self.only_edges:
            a, b = s
            out = [s]
            if a != b:
                for c in self.nbrs(b):
                    if c != b and (b, c) not in out:  # never onto a self loop; U-turn (b, a) is allowed
                        out.append((b, c))
            for (c, d) in self.linked.get((a, b), []):
                if d != b and c != a and (c, d) not in out:
                    out.append((c, d))
            return out
        if isinstance(s, tuple):
            return [s, s[1]]  # stay on the edge, or arrive at its end node
        out = [s]
        for c in self.nbrs(s):
            if c not in out:
                out.append(c)
        res = list(out)
        for c in out:
            if c != s:
                res.append((s, c))
        return res

    # --- scores -----------------------------------------------------------------------------------
    def emis(self, s, obs_i, p):
        key = (s, obs_i)
        r = self._emis_cache.get(key)
        if r is None:
            if isinstance(s, tuple):
                d, pi, t = self.pt_seg(p, self.coords[s[0]], self.coords[s[1]])
                r = (d, (pi[0], pi[1]), t)
            else:
                r = (self.dist(self.coords[s], p), self.coords[s], 0)
            self._emis_cache[key] = r
        return r

    def lp_obs(self, d):
        return -d * d / (2 * self.obs_noise ** 2)

    def emit_ok(self, s, t):
        """in node-and-edge mode an edge only emits when the observation projects strictly inside it."""
        if (not self.only_edges) and isinstance(s, tuple):
            if abs(t - 0.0) <= self.atol or abs(t - 1.0) <= self.atol:
                return False
        return True

    def lp_trans(self, sp, pip, op, s, pi, o):
        if self.family != "distance":
            return 0.0 if sp == s else LOG09
        d_z = self.dist(op, o)
        same = (sp == s) or (sp == (s[1], s[0]))
        if same or sp[1] != s[0]:
            d_x = self.dist(pip, pi)
        else:
            mid = self.coords[sp[1]]
            d_x = self.dist(pip, mid) + self.dist(mid, pi)
        lp = -(d_z - d_x) ** 2 / (2 * self.dist_noise ** 2)
        if not same and sp[1] != s[0]:
            lp += LOG05
        return lp

    def _near(self, v, thr):
        if math.isinf(thr) or v == thr:
            return False
        return abs(v - thr) <= 1e-9 * max(abs(thr), 1e-300)

    def admissible(self, lp, length, d):
        # the normalised probability is computed by the reference with its own formula and may differ from the
        # implementation's by an ulp: a value within 1e-9 relative of the threshold - INCLUDING exactly on it - is borderline
        # (distances come from the map's own primitive, so exact equality with a distance threshold is judged)
        v = lp / length
        if not math.isinf(self.min_lpn) and abs(v - self.min_lpn) <= 1e-9 * max(abs(self.min_lpn), 1e-300):
            self.borderline = True
        if lp / length < self.min_lpn:
            return False
        if d > self.max_dist:
            return False
        return True

    def start_states(self, p0):
        cands = list(self.edges()) if self.only_edges else list(self.coords)
        out = {}
        for s in cands:
            d, pi, t = self.emis(s, 0, p0)
            if not (d < self.max_dist_init):
                continue
            lp = self.lp_obs(d)
            if not self.admissible(lp, 1, d):
                continue
            out[s] = (lp, pi, None)
        return out

    def step(self, i, sp, lpp, pip, s, path):
        d, pi, t = self.emis(s, i, path[i])
        if not self.emit_ok(s, t):
            return None
        lp = lpp + (self.lp_trans(sp, pip, path[i - 1], s, pi, path[i]) + self.lp_obs(d))
        if not self.admissible(lp, i + 1, d):
            return None
        return lp, pi

    # --- optimum ----------------------------------------------------------------------------------
    def run(self, path):
        """dynamic programming; returns list of columns {state: (logprob, proj point, best predecessor)}"""
        col = self.start_states(path[0])
        cols = [col]
        if not col:
            return cols
        for i in range(1, len(path)):
            new = {}
            for sp, (lpp, pip, _) in cols[-1].items():
                for s in self.succ(sp):
                    r = self.step(i, sp, lpp, pip, s, path)
                    if r is None:
                        continue
                    lp, pi = r
                    if s not in new or new[s][0] < lp:
                        new[s] = (lp, pi, sp)
            if not new:
                break
            cols.append(new)
        return cols

    def brute(self, path, max_walks=200000):
        """enumerate every walk; returns (longest admissible prefix length, best logprob for it) or None if too big."""
        best = {}
        count = [0]

        def rec(i, s, lp, pi):
            count[0] += 1
            if count[0] > max_walks:
                raise OverflowError
            if i not in best or best[i] < lp:
                best[i] = lp
            if i + 1 >= len(path):
                return
            for s2 in self.succ(s):
                r = self.step(i + 1, s, lp, pi, s2, path)
                if r is not None:
                    rec(i + 1, s2, r[0], r[1])
        try:
            for s, (lp, pi, _) in self.start_states(path[0]).items():
                rec(0, s, lp, pi)
        except OverflowError:
            return None
        if not best:
            return (0, None)
        L = max(best)
        return (L + 1, best[L])

    def score_walk(self, states, path):
        """model log-probability of a given emitting-only walk (one state per observation), or a string
        describing why the walk is not admissible."""
        s0 = states[0]
        starts = self.start_states(path[0])
        if s0 not in starts:
            return f"first state {s0} is not an admissible start candidate"
        lp, pi, _ = starts[s0]
        for i in range(1, len(states)):
            s = states[i]
            if s not in self.succ(states[i - 1]):
                return f"move {states[i - 1]} -> {s} is not offered by the map"
            r = self.step(i, states[i - 1], lp, pi, s, path)
            if r is None:
                return f"state {s} at observation {i} is not admissible"
            lp, pi = r
        return lp
