"""Oracles over the observable result of a public matcher call (C02-C05).

Each function takes the live matcher after a call (and what the call returned) and yields
(signature-kind, explanation) pairs; an empty result means the clause held on this observation.
"""
import math

from . import refgeo as rg
from . import rescoring

EPS = 2.220446049250313e-16


def close(a, b, rel=1e-9):
    if a == b:  # also equal infinities (the Newson-Krumm emission underflows to -inf for far observations)
        return True
    if math.isinf(a) or math.isinf(b):
        return False
    return abs(a - b) <= rel * max(1.0, abs(a), abs(b))


def live0(col):
    return [x for x in col.values(0) if not x.stop]


# ------------------------------------------------------------------------------------------- C03
def alignment(mt, res, unique, n_obs):
    """C03: result aligned with the observations, truthful index.  Computed from the lattice state,
    independently of the matcher's early_stop_idx bookkeeping."""
    out = []
    if not (isinstance(res, tuple) and len(res) == 2):
        return [("result-not-a-pair", repr(res))]
    states, idx = res
    lat = mt.lattice
    livecols = [i for i in range(n_obs) if i in lat and live0(lat[i])]
    # columns are filled left to right: live columns form a prefix
    last_live = None
    for i in range(n_obs):
        if i in lat and live0(lat[i]):
            last_live = i
        else:
            break
    if last_live is None:
        if not (states == [] and idx == 0):
            out.append(("nonempty-or-wrong-index-without-live-first-candidate", f"returned {states!r}, {idx!r}; column 0 has no live entry"))
        return out
    if states is None or states == []:
        out.append(("empty-result-although-first-observation-has-candidates", f"returned {states!r}, {idx!r}; column 0 has {len(live0(lat[0]))} live entries"))
        return out
    if idx != last_live:
        out.append(("index-is-not-the-last-matched-observation", f"returned index {idx}, last column with a live emitting entry is {last_live} (trace length {n_obs})"))
    if (idx == n_obs - 1) != (last_live == n_obs - 1):
        out.append(("index-claims-complete-match-wrongly", f"index {idx}, trace length {n_obs}, last live column {last_live}"))
    lb = mt.lattice_best
    if not lb:
        out.append(("no-best-path-for-nonempty-result", ""))
        return out
    if (lb[0].obs, lb[0].obs_ne) != (0, 0):
        out.append(("path-does-not-start-at-first-observation", f"starts at {lb[0].key}"))
    for a, b in zip(lb, lb[1:]):
        if not ((b.obs == a.obs and b.obs_ne == a.obs_ne + 1) or (b.obs == a.obs + 1 and b.obs_ne == 0)):
            out.append(("path-step-not-aligned", f"{a.key} -> {b.key}"))
            break
    emit = [x.obs for x in lb if x.obs_ne == 0]
    if emit != list(range(idx + 1)):
        out.append(("emitting-states-not-one-per-matched-observation", f"emitting observations {emit}, index {idx}"))
    keys = [x.shortkey for x in lb]
    if unique:
        exp = [k for i, k in enumerate(keys) if i == 0 or k != keys[i - 1]]
    else:
        exp = keys
    if list(states) != exp:
        out.append((f"returned-states-differ-from-path:unique={bool(unique)}", f"returned {states!r}, path {keys!r}"))
    if mt.lattice_best and any(x.stop for x in lb):
        out.append(("stopped-entry-on-best-path", f"{[x.key for x in lb if x.stop]}"))
    return out


# ------------------------------------------------------------------------------------------- C04
def move_checker(model):
    """-> (state_ok(k), move_ok(a, b)) with adjacency taken from the raw graph of the case."""
    coords, adj = model.coords, model.adj
    linked = {}
    for pair in model.spec.get("linked") or []:
        (a, b), (c, d) = pair
        linked.setdefault((tuple(a), tuple(b)) if False else (a, b), set()).add((c, d))

    def nb(n):
        return [c for c in adj.get(n, []) if c in coords]

    def state_ok(k):
        if isinstance(k, tuple):
            return k[0] in coords and k[1] in nb(k[0]) and k[0] != k[1]
        return k in coords

    def move_ok(a, b):
        if a == b:
            return True
        if isinstance(a, tuple) and isinstance(b, tuple):
            return (a[1] == b[0] and b[1] in nb(b[0]) and b[0] != b[1]) or (b in linked.get(a, ()))
        if isinstance(a, tuple):
            return b == a[1]
        if isinstance(b, tuple):
            return b[0] == a and b[1] in nb(a)
        return b in nb(a)
    return state_ok, move_ok


def lattice_bad_links(mt, model):
    """hints for directed amplification (C04): live lattice entries, anywhere in the lattice, whose state is not in the map or
    whose best-predecessor link is a move the map does not offer.  -> list of (entry, predecessor or None, kind), links scanned"""
    state_ok, move_ok = move_checker(model)
    out = []
    n = 0
    if not mt.lattice:
        return out, n
    for col in mt.lattice.values():
        for layer in col.o:
            for x in layer.values():
                if x.stop:
                    continue
                if not state_ok(x.shortkey):
                    out.append((x, None, "state"))
                    continue
                for p in x.prev:
                    n += 1
                    if state_ok(p.shortkey) and not move_ok(p.shortkey, x.shortkey):
                        out.append((x, p, "move"))
    return out, n


def walk(mt, model, jumps_used=False):
    """C04: the matched sequence is a walk in the road graph (adjacency from the raw graph)."""
    out = []
    lb = mt.lattice_best
    if not lb:
        return out
    keys = [x.shortkey for x in lb]
    coords, adj = model.coords, model.adj
    linked = {}
    for pair in model.spec.get("linked") or []:
        (a, b), (c, d) = pair
        linked.setdefault((a, b), set()).add((c, d))

    def nb(n):
        return [c for c in adj.get(n, []) if c in coords]
    for k in keys:
        if isinstance(k, tuple):
            if not (k[0] in coords and k[1] in nb(k[0]) and k[0] != k[1]):
                out.append(("state-is-not-an-edge-of-the-map", f"{k}"))
        elif k not in coords:
            out.append(("state-is-not-a-node-of-the-map", f"{k}"))
    if out:
        return out
    if not jumps_used:
        for a, b in zip(keys, keys[1:]):
            if a == b:
                ok = True
            elif isinstance(a, tuple) and isinstance(b, tuple):
                ok = (a[1] == b[0] and b[1] in nb(b[0]) and b[0] != b[1]) or (b in linked.get(a, ()))
            elif isinstance(a, tuple):
                ok = (b == a[1])
            elif isinstance(b, tuple):
                ok = (b[0] == a and b[1] in nb(a))
            else:
                ok = b in nb(a)
            if not ok:
                out.append(("move-not-offered-by-the-map", f"{a} -> {b}"))
                break
    if not linked and not jumps_used:
        try:
            nodes = mt.path_pred_onlynodes
        except Exception as e:
            out.append((f"nodes-only-view-raises-{type(e).__name__}", f"{e!r}; path {keys}"))
            return out
        for a, b in zip(nodes, nodes[1:]):
            if a == b:
                out.append(("nodes-only-view-immediate-repeat", f"{nodes}"))
                break
            if b not in nb(a):
                out.append(("nodes-only-view-not-adjacent", f"{a} -> {b} in {nodes}; path {keys}"))
                break
    return out


# ------------------------------------------------------------------------------------------- C05
def cutoffs_and_nearest(mt, model, trace, counters=None):
    """C05: cut-offs honoured on the path, matched positions are true nearest points."""
    out = []
    lb = mt.lattice_best or []
    latlon = model.latlon
    for x in lb:
        if x.dist_obs > mt.max_dist:
            out.append(("state-farther-than-max_dist", f"{x.key} dist {x.dist_obs!r} > {mt.max_dist!r}"))
        if x.obs == 0 and x.obs_ne == 0 and not math.isinf(mt.max_dist_init) and not x.dist_obs < mt.max_dist_init:
            out.append(("first-state-not-within-max_dist_init", f"{x.key} dist {x.dist_obs!r}, max_dist_init {mt.max_dist_init!r}"))
        if x.logprob / x.length < mt.min_logprob_norm:
            out.append(("normalised-probability-below-minimum", f"{x.key} {x.logprob / x.length!r} < {mt.min_logprob_norm!r}"))
        if counters is not None:
            if not math.isinf(mt.max_dist) and x.dist_obs == mt.max_dist:
                counters["state_exactly_at_max_dist"] = counters.get("state_exactly_at_max_dist", 0) + 1
        if x.obs_ne != 0:
            continue
        p = trace[x.obs]
        if isinstance(x.shortkey, tuple):
            e = x.shortkey
            if e not in model.edgeset:
                continue  # C04's business
            d, t, q = model.pt_edge(p, e)
            tol = model.tol_edge(p, e, d)
            a, b = model.coords[e[0]], model.coords[e[1]]
            L = model.dist(a, b)
            if counters is not None:
                counters["emitting_edge_states"] = counters.get("emitting_edge_states", 0) + 1
                if t in (0.0, 1.0):
                    counters["clamped_projections"] = counters.get("clamped_projections", 0) + 1
                else:
                    counters["interior_projections"] = counters.get("interior_projections", 0) + 1
            pi = x.edge_m.pi
            if pi is None or x.edge_m.ti is None:
                out.append(("position-on-edge-not-reported", f"{x.key} pi={pi!r} ti={x.edge_m.ti!r}"))
                continue
            if not model.dist(pi, q) <= tol:
                out.append(("reported-position-is-not-the-nearest-point", f"{x.key}: pi={pi!r}, nearest point of edge {a}-{b} to {p} is {q!r}"))
            if not abs(x.dist_obs - d) <= tol:
                out.append(("reported-distance-is-not-the-true-distance", f"{x.key}: dist_obs={x.dist_obs!r}, true distance {d!r}"))
            if L > 0 and not abs(x.edge_m.ti - t) * L <= tol:
                out.append(("reported-relative-position-wrong", f"{x.key}: ti={x.edge_m.ti!r}, true {t!r}"))
        else:
            l = x.shortkey
            if l not in model.coords:
                continue
            d = model.dist(p, model.coords[l])
            if counters is not None:
                counters["emitting_node_states"] = counters.get("emitting_node_states", 0) + 1
            if not abs(x.dist_obs - d) <= model.tol_node(p, d):
                out.append(("node-distance-wrong", f"{x.key}: dist_obs={x.dist_obs!r}, true {d!r}"))
    return out


# ------------------------------------------------------------------------------------------- C02
def rescore_path(mt, family, model, counters=None, stamps=None, cfg=None):
    """C02: reported numbers along the best path equal the documented model's numbers."""
    out = []
    lb = mt.lattice_best or []
    if not lb:
        return out
    latlon = model.latlon
    dist_fn = rg.gc_dist if latlon else (lambda p, q: math.hypot(p[0] - q[0], p[1] - q[1]))
    rel = 1e-6 if latlon else 1e-9
    for x in lb:
        if latlon:
            gtol = 0.5 + 1e-3 * abs(x.dist_obs)
        else:
            mag = max([abs(v) for pt in (x.edge_m.p1, x.edge_o.p1) for v in pt[:2]] + [abs(x.dist_obs)])
            gtol = 1e-9 * abs(x.dist_obs) + 64 * EPS * mag
        for kind, text in rescoring.geometry_issues(x, dist_fn, gtol):
            out.append((f"geometry:{kind}", f"{x.key}: {text}"))
    if out:
        return out
    fields = ["logprob", "length"]
    if family == "distance":
        fields += ["d_o", "d_s"]
    prev_entry = None
    for x, cur in rescoring.rescore(mt, dist_fn, family, cfg=cfg):
        if counters is not None:
            counters["states_rescored"] = counters.get("states_rescored", 0) + 1
            if x.obs_ne != 0:
                counters["nonemitting_states_rescored"] = counters.get("nonemitting_states_rescored", 0) + 1
        bad = None
        for f in fields:
            rep = getattr(x, f)
            exp = cur[f]
            if f == "length":
                ok = rep == exp
            else:
                ok = close(rep, exp, rel)
            if not ok:
                bad = (f, rep, exp)
                break
        if bad:
            kind = "nonemitting" if x.obs_ne != 0 else "emitting"
            # mechanism: is x a stale child?  Its step terms are right, but its predecessor on the path was replaced by a
            # better candidate in a later round (widen / extend) and then postponed by the width pruning of that round, so
            # it was never expanded again and x still carries the predecessor's old probability.
            mech = None
            if bad[0] == "logprob" and prev_entry is not None and stamps is not None and mt.max_lattice_width and mt.expand_now >= 1:
                wx, wp = stamps.w.get(id(x)), stamps.w.get(id(prev_entry))
                xp = stamps.x.get(id(prev_entry), 0)
                step_ok = True
                if family == "distance" and not latlon:
                    step_ok = close(x.lpe, cur["lpe"], rel)
                xk = getattr(stamps, "xk", {}).get(prev_entry.key, 0)
                if wx is not None and wp is not None and wx < wp and step_ok and not prev_entry.stop \
                        and (xp > wp or xk > wp or prev_entry.delayed > getattr(stamps, "wround", {}).get(id(prev_entry), mt.expand_now)):
                    # the predecessor was replaced in place AFTER this state was written, and it was either expanded again
                    # (the regenerated candidate for this state was not better, or is forbidden by the no-revisit rule) or
                    # postponed by the width pruning of the round it was replaced in (delayed beyond that round; a non-emitting
                    # entry is not taken up again by itself in later rounds, only through its parents), or (third form, thorough run 3) the non-emitting search
                    # expanded ANOTHER candidate object filed under the predecessor's key after the replacement: when two
                    # candidates for one key arrive in one non-emitting layer, the first is scheduled for expansion and the
                    # second, better one is merged into the stored entry only.  A predecessor that was replaced and then neither
                    # expanded (under its key) nor postponed does NOT match (that is the bug repaired by ba170ae).
                    mech = "stale-child-of-entry-replaced-in-a-later-round"
            if mech:
                out.append((f"{bad[0]}:{mech}", f"state {x.key}: reported logprob={bad[1]!r}; its predecessor {prev_entry.key} (now "
                            f"{prev_entry.logprob!r}, delayed={prev_entry.delayed}, round {mt.expand_now}) was replaced after this state was written; "
                            f"the model assigns {bad[2]!r} to this path prefix (path {[y.key for y in lb]})"))
            else:
                out.append((f"{bad[0]}:{kind}", f"state {x.key}: reported {bad[0]}={bad[1]!r}, the model assigns {bad[2]!r} to this path prefix "
                            f"(path {[y.key for y in lb]})"))
            break
        prev_entry = x
    return out


def tie_induced(path_a, path_b, keymap=None, tol=1e-12):
    """Two reported paths [(key, logprob), ...] differ.  The difference is induced by a choice among exactly equally
    probable alternatives when (a) the totals are equal, or (b) at the FIRST position where the states differ both
    alternatives have the same probability (everything after that point follows from the choice; in particular the
    trailing non-emitting states after an early stop, where the deepest chain is reported, not the most probable)."""
    pa, pb = path_a[-1][1], path_b[-1][1]
    if pa == pb or (not math.isinf(pa) and not math.isinf(pb) and abs(pa - pb) <= tol * max(1.0, abs(pa))):
        return True
    for (ka, la), (kb, lb) in zip(path_a, path_b):
        ka2 = keymap(ka) if keymap else ka
        if list(ka2) != list(kb):
            return la == lb or (not math.isinf(la) and not math.isinf(lb) and abs(la - lb) <= tol * max(1.0, abs(la)))
    return False


def first_lattice_divergence(mt_a, mt_b, keymap=None, tol=1e-12):
    """Fault localisation for order/label dependence (C10 permutation clause, C16 relabelling): compare the two lattices
    layer by layer in (observation, non-emitting depth) order and describe the FIRST difference.
    keymap maps a lattice key of run A to the corresponding key of run B (identity when None).
    -> None when the lattices agree, else dict(where, kind, ties, detail) with kind in
       'entry-set' (different live states), 'logprob' (same states, different probability), 'delayed' (same states and
       probabilities, different postponement by the width pruning)."""
    la, lb = mt_a.lattice or {}, mt_b.lattice or {}

    def layer(lat, i, k):
        if i not in lat or k >= len(lat[i].o):
            return {}
        return {key: e for key, e in lat[i].o[k].items() if not e.stop}

    def exact_ties(entries):
        # exactly equal PROBABILITIES of two different live states (equal distances alone are common - two roads clamped to a
        # shared node - and decide nothing)
        lps = sorted(e.logprob for e in entries)
        return any(a == b for a, b in zip(lps, lps[1:]))
    ncol = max([len(la), len(lb)])
    prev_choice_tie = False  # same state, same probability, different best predecessor: an exact tie between two candidates
    prev_choice_tie_ne = False  # ... and that state is a NON-EMITTING one (the visited-node filter of the non-emitting search
    #                             follows the chain of best predecessors, so the choice decides which moves exist further on)
    for i in range(ncol):
        depth = max(len(la[i].o) if i in la else 0, len(lb[i].o) if i in lb else 0)
        for k in range(depth):
            A = layer(la, i, k)
            B = layer(lb, i, k)
            Am = {(tuple(keymap(key)) if keymap else key): e for key, e in A.items()}
            kind = None
            if set(Am) != set(B):
                kind = "entry-set"
                detail = f"only in first run: {sorted(set(Am) - set(B), key=repr)[:3]}, only in second: {sorted(set(B) - set(Am), key=repr)[:3]}"
            else:
                dl = [key for key in Am if abs(Am[key].logprob - B[key].logprob) > tol * max(1.0, abs(B[key].logprob))]
                if dl:
                    kind = "logprob"
                    detail = f"{dl[0]}: {Am[dl[0]].logprob!r} vs {B[dl[0]].logprob!r}"
                else:
                    dd = [key for key in Am if (Am[key].delayed > mt_a.expand_now) != (B[key].delayed > mt_b.expand_now)]
                    if dd:
                        kind = "delayed"
                        detail = f"{dd[0]}: postponed in one run only (logprob {B[dd[0]].logprob!r})"
            if not kind:
                km = (lambda key: tuple(keymap(key))) if keymap else (lambda key: key)
                for key, e in Am.items():
                    pa = {km(q.key) for q in e.prev}
                    pb = {q.key for q in B[key].prev}
                    if pa != pb:
                        prev_choice_tie = True
                        if k >= 1:
                            prev_choice_tie_ne = True
            if kind:
                prev_entries = []
                for (pi, pk) in ((i, k - 1), (i - 1, 0), (i, k)):
                    if pi >= 0 and pk >= 0:
                        prev_entries += list(layer(la, pi, pk).values())
                return {"where": (i, k), "kind": kind, "ties": prev_choice_tie or exact_ties(prev_entries) or exact_ties(list(A.values())) or exact_ties(list(B.values())),
                        "prev_choice_tie": prev_choice_tie, "prev_choice_tie_ne": prev_choice_tie_ne, "detail": detail}
    return None


def order_dependence_mechanism(cfg, div):
    """Name the mechanism of an order/label dependence from the first lattice divergence; None = no recorded mechanism applies.
    The repository's search is exact (order-independent up to the reported tie) for emitting-only, first-order
    configurations; two heuristics make it depend on the order in which EXACTLY tied candidates are listed:"""
    if div is None or not div["ties"]:
        return None
    if div["kind"] == "delayed":
        return None  # the width pruning itself treated tied candidates differently: never a recorded mechanism
    i, k = div["where"]
    if cfg.get("non_emitting") and (k >= 1 or div["kind"] == "entry-set"):
        return "nonemitting-search-keeps-first-arrival-among-exact-ties"
    if cfg.get("non_emitting") and div.get("prev_choice_tie_ne"):
        # a non-emitting state with two EXACTLY equally probable predecessors got another best predecessor; the search's
        # visited-node filter (_node_in_prev_ne) walks the best-predecessor chain, so a move back into one of the two tied
        # roads exists in one run only (mirror-loop class)
        return "nonemitting-search-keeps-first-arrival-among-exact-ties"
    if cfg.get("agb"):
        return "second-order-penalties-after-exact-tie"
    return None
