"""Matcher-level cases: {"map", "trace", "cfg"} with optional threshold tightening.

`tighten` is the mandatory "exact threshold" workload class of DESIGN.md section 3.1: a first
pass of the real matcher without cut-offs yields the distances / normalised probabilities that
actually occur for this input; max_dist, max_dist_init and min_prob_norm are then set to values
taken from that pass, so that the stop rule is exercised exactly at its thresholds
(`>` versus `>=` regressions are invisible with random real-valued thresholds).
"""
import math
import types

from . import env  # noqa: F401
from . import gen, build


def fullscan_edges_closeto(self, loc, max_dist=None, max_elmt=None):
    """InMemMap.edges_closeto without the start-node pre-filter (monitor-side substitution used for fault
    localisation of the recorded finding C11:inmem:edges_closeto:missing:edge-start-node-outside-search-box)."""
    results = []
    for label, (oloc, nbrs) in self.graph.items():
        for nbr in nbrs:
            if label == nbr:
                continue
            nd = self.graph[nbr]
            dist, pi, ti = self.distance_point_to_segment(loc, oloc, nd[0])
            if dist < max_dist:
                results.append((dist, label, oloc, nbr, nd[0], pi, ti))
    results.sort()
    if max_elmt is not None:
        results = results[:max_elmt]
    return results


def patch_fullscan(mp):
    mp.edges_closeto = types.MethodType(fullscan_edges_closeto, mp)
    return mp


def lattice_entries(matcher):
    for i in sorted(matcher.lattice):
        col = matcher.lattice[i]
        for k, layer in enumerate(col.o):
            for e in layer.values():
                yield i, k, e


def tighten(case, rng, what=("max_dist", "max_dist_init", "min_prob_norm")):
    cfg0 = dict(case["cfg"])
    cfg0.update(max_dist=None, max_dist_init=None, min_prob_norm=None, width=None)
    try:
        mp = build.make_inmem(case["map"])
        mt = build.make_matcher(mp, cfg0)
        mt.match(build.trace(case["trace"]))
        ents = list(lattice_entries(mt))
    except Exception:
        return case
    if not ents:
        return case
    cfg = case["cfg"]
    ds = sorted({e.dist_obs for _, _, e in ents if e.dist_obs > 0})
    ds0 = sorted({e.dist_obs for i, k, e in ents if i == 0 and k == 0 and e.dist_obs > 0})
    chosen = []
    if "max_dist" in what and ds and rng.random() < 0.7:
        # bias to the upper half so that a walk survives, but the threshold still bites
        j = min(len(ds) - 1, int(len(ds) * rng.choice([0.3, 0.5, 0.7, 0.9, 1.0])))
        cfg["max_dist"] = ds[j]
        chosen.append("max_dist")
    if "max_dist_init" in what and ds0 and rng.random() < 0.5:
        cfg["max_dist_init"] = rng.choice(ds0)
        chosen.append("max_dist_init")
    if "min_prob_norm" in what and rng.random() < 0.5:
        vals = sorted({e.logprob / e.length for _, _, e in ents if e.logprob > -700 and e.logprob < 0})
        if vals:
            v = vals[min(len(vals) - 1, int(len(vals) * rng.choice([0.1, 0.3, 0.5])))]
            cfg["min_prob_norm"] = math.exp(v)
            chosen.append("min_prob_norm")
    case["tightened"] = chosen
    return case


def gen_mcase(rng, families=gen.FAMILIES, ne=None, width=False, agb=None, kinds=("random", "grid", "chain", "chain_dyadic"),
              labels=("int", "intperm", "str", "gap", "nested"), hostile=True, tighten_p=0.35, cut=True, sparse_p=0.0, max_obs=10):
    if sparse_p and rng.random() < sparse_p:
        m, tr = gen.gen_sparse_chain_case(rng, labels=labels)
        if hostile:
            gen.add_hostile(rng, m, selfloop_p=0.15, zero_p=0.1)
    else:
        m = gen.gen_map(rng, kinds=kinds, labels=labels, hostile=hostile)
        tr = gen.gen_trace(rng, m, k=rng.randint(1, max_obs))
    cfg = gen.gen_cfg(rng, families=families, ne=ne, width=width, agb=agb, cut=cut)
    case = {"map": m, "trace": tr, "cfg": cfg}
    if cut and tighten_p and rng.random() < tighten_p:
        tighten(case, rng)
    return case


def gen_large_mcase(rng, width="maybe"):
    """a larger map (40-120 nodes) with a longer trace (12-30 observations); cut-offs always set so that the
    non-emitting search stays bounded.  For the invariant monitors only."""
    m = gen.map_large(rng, labels=rng.choice(["int", "str"]))
    sparse = rng.choice([1, 1, 2])
    tr = gen.gen_long_trace(rng, m, noise=rng.choice([0.05, 0.15, 0.3]), sparse=sparse)
    cfg = gen.gen_cfg(rng, width=width, cut=True)
    cfg["max_dist"] = rng.choice([1.0, 1.5, 2.0])
    cfg["min_prob_norm"] = rng.choice([None, 0.01, 0.1])
    if cfg["width"] is not None:
        cfg["width"] = rng.choice([2, 3, 5, 8])
    if rng.random() < 0.3 and len(tr) > 4:
        j = rng.randrange(2, len(tr))
        tr[j] = [tr[j][0] + 8.0, tr[j][1] + 5.0]
    return {"map": m, "trace": tr, "cfg": cfg, "large": True}


DIST_KEYS = ("obs_noise", "obs_noise_ne", "dist_noise", "dist_noise_ne", "max_dist", "max_dist_init")


def scale_case(case, sc):
    """scale a planar matcher-level case exactly (sc a power of two): coordinates of the map, of every trace the case carries
    and all distance parameters; probabilities and paths are unchanged by construction of the models."""
    case["map"] = gen.transform_map(case["map"], sc)
    case["trace"] = gen.transform_trace(case["trace"], sc)
    if case.get("pre_trace"):
        case["pre_trace"] = gen.transform_trace(case["pre_trace"], sc)
    for op in case.get("ops") or []:
        if isinstance(op, dict) and op.get("trace"):
            op["trace"] = gen.transform_trace(op["trace"], sc)
    for key in DIST_KEYS:
        if case["cfg"].get(key) is not None:
            case["cfg"][key] *= sc
    if case.get("links"):
        case["links"] *= sc
    return case


def scale_dimension(p, exps=(7, 10, 14, 17)):
    """decorator for gen_case: a fraction p of the planar cases is expressed in a small coordinate unit (degrees, kilometres,
    normalised coordinates): everything scaled by 2^-k.  No structural or differential oracle depends on the unit."""
    def deco(gen_case):
        def wrapped(rng, i, tier):
            case = gen_case(rng, i, tier)
            if (isinstance(case, dict) and isinstance(case.get("map"), dict) and not case["map"].get("latlon") and "cfg" in case
                    and "tiny" not in case and not case.get("rebuilt") and rng.random() < p):
                k = rng.choice(exps)
                scale_case(case, 2.0 ** -k)
                case["tiny"] = k
            return case
        return wrapped
    return deco
