"""Reference geometry, independent of the repository.

Planar: exact rational arithmetic over the binary values of the input floats (only the final
square root rounds).  Spherical: 3-D unit vectors on the R = 6 371 000 m sphere; arc/arc
intersection is decided by exact-rational signs of triple products of the (double-rounded) unit
vectors, because a floating-point "is X on both arcs" test mis-judges sub-metre arcs.
Points are (y, x) resp. (lat, lon) pairs, as in the repository.
"""
import math
from fractions import Fraction as F

R = 6371000.0


# ------------------------------------------------------------------------------------------ planar
def fr(p):
    return (F(p[0]), F(p[1]))


def f_sqdist(p, q):
    return (p[0] - q[0]) ** 2 + (p[1] - q[1]) ** 2


def f_project(p, a, b):
    """exact (squared distance, t, nearest point) of point p to segment a-b; all Fractions."""
    dx, dy = b[0] - a[0], b[1] - a[1]
    l2 = dx * dx + dy * dy
    if l2 == 0:
        return f_sqdist(p, a), F(0), a
    t = ((p[0] - a[0]) * dx + (p[1] - a[1]) * dy) / l2
    t = max(F(0), min(F(1), t))
    q = (a[0] + t * dx, a[1] + t * dy)
    return f_sqdist(p, q), t, q


def f_cross(o, a, b):
    return (a[0] - o[0]) * (b[1] - o[1]) - (a[1] - o[1]) * (b[0] - o[0])


def f_on(p, q, r):
    return (f_cross(p, q, r) == 0 and min(p[0], q[0]) <= r[0] <= max(p[0], q[0])
            and min(p[1], q[1]) <= r[1] <= max(p[1], q[1]))


def f_intersects(a, b, c, d):
    d1, d2, d3, d4 = f_cross(c, d, a), f_cross(c, d, b), f_cross(a, b, c), f_cross(a, b, d)
    if ((d1 > 0 and d2 < 0) or (d1 < 0 and d2 > 0)) and ((d3 > 0 and d4 < 0) or (d3 < 0 and d4 > 0)):
        return True
    return f_on(c, d, a) or f_on(c, d, b) or f_on(a, b, c) or f_on(a, b, d)


def f_segseg_sq(a, b, c, d):
    """exact squared minimum distance between segments a-b and c-d."""
    if f_intersects(a, b, c, d):
        return F(0)
    return min(f_project(a, c, d)[0], f_project(b, c, d)[0], f_project(c, a, b)[0], f_project(d, a, b)[0])


def fsqrt(x):
    """float sqrt of a non-negative Fraction without overflow/precision loss for huge num/den."""
    if x == 0:
        return 0.0
    try:
        return math.sqrt(x)
    except OverflowError:
        n, d = x.numerator, x.denominator
        return math.exp(0.5 * (math.log(n) - math.log(d)))


def pl_point_segment(p, a, b):
    """(distance, t, nearest point) as floats, computed exactly."""
    sq, t, q = f_project(fr(p), fr(a), fr(b))
    return fsqrt(sq), float(t), (float(q[0]), float(q[1]))


def pl_segseg(a, b, c, d):
    return fsqrt(f_segseg_sq(fr(a), fr(b), fr(c), fr(d)))


def pl_dist(p, q):
    return fsqrt(f_sqdist(fr(p), fr(q)))


def pl_dist_point_to_segment_of(p, a, b):
    """exact distance of point p to the segment a-b (float result)."""
    return fsqrt(f_project(fr(p), fr(a), fr(b))[0])


# --------------------------------------------------------------------------------------- spherical
def vec(p):
    la, lo = math.radians(p[0]), math.radians(p[1])
    cl = math.cos(la)
    return (cl * math.cos(lo), cl * math.sin(lo), math.sin(la))


def dot(a, b):
    return a[0] * b[0] + a[1] * b[1] + a[2] * b[2]


def cross(a, b):
    return (a[1] * b[2] - a[2] * b[1], a[2] * b[0] - a[0] * b[2], a[0] * b[1] - a[1] * b[0])


def norm(a):
    return math.sqrt(dot(a, a))


def unit(a):
    n = norm(a)
    return (a[0] / n, a[1] / n, a[2] / n)


def sub(a, b):
    return (a[0] - b[0], a[1] - b[1], a[2] - b[2])


def xcross(a, b):
    """a x b for nearly equal unit vectors, computed as a x (b - a): the difference is (almost) exact,
    so the result keeps full relative precision where the naive cross product cancels."""
    return cross(a, sub(b, a))


def ang(a, b):
    return math.atan2(norm(xcross(a, b)), dot(a, b))


def tolatlon(v):
    return (math.degrees(math.atan2(v[2], math.hypot(v[0], v[1]))), math.degrees(math.atan2(v[1], v[0])))


def gc_dist(p, q):
    return R * ang(vec(p), vec(q))


def gc_dest(p, bearing_deg, dist):
    """Direct geodesic problem on the sphere with vectors (own implementation)."""
    P = vec(p)
    la, lo = math.radians(p[0]), math.radians(p[1])
    north = (-math.sin(la) * math.cos(lo), -math.sin(la) * math.sin(lo), math.cos(la))
    east = (-math.sin(lo), math.cos(lo), 0.0)
    b = math.radians(bearing_deg)
    dirv = tuple(math.cos(b) * n + math.sin(b) * e for n, e in zip(north, east))
    d = dist / R
    Q = tuple(math.cos(d) * x + math.sin(d) * y for x, y in zip(P, dirv))
    return tolatlon(Q)


def gc_bearing(p, q):
    """initial bearing in degrees from p to q."""
    P, Q = vec(p), vec(q)
    la, lo = math.radians(p[0]), math.radians(p[1])
    north = (-math.sin(la) * math.cos(lo), -math.sin(la) * math.sin(lo), math.cos(la))
    east = (-math.sin(lo), math.cos(lo), 0.0)
    return math.degrees(math.atan2(dot(Q, east), dot(Q, north)))


def gc_point_segment(p, a, b):
    """nearest point on the minor arc a-b to p: (distance m, t in [0,1], (lat, lon))."""
    A, B, P = vec(a), vec(b), vec(p)
    n = xcross(A, B)
    if norm(n) < 1e-15:
        return gc_dist(p, a), 0.0, tuple(a[:2])
    n = unit(n)
    k = dot(sub(P, A), n)  # = P.n because A.n = 0
    Q = (P[0] - k * n[0], P[1] - k * n[1], P[2] - k * n[2])
    if norm(Q) < 1e-15:
        Q = A
    Q = unit(Q)
    ab = ang(A, B)
    aq = math.atan2(dot(xcross(A, Q), n), dot(A, Q))
    if 0 <= aq <= ab:
        return R * ang(P, Q), aq / ab, tolatlon(Q)
    da, db = R * ang(P, A), R * ang(P, B)
    if da <= db:
        return da, 0.0, tuple(a[:2])
    return db, 1.0, tuple(b[:2])


def _ftriple(a, b, c):
    a, b, c = [tuple(F(x) for x in v) for v in (a, b, c)]
    return (a[0] * (b[1] * c[2] - b[2] * c[1]) - a[1] * (b[0] * c[2] - b[2] * c[0])
            + a[2] * (b[0] * c[1] - b[1] * c[0]))


def _sgn(x):
    return (x > 0) - (x < 0)


def gc_arcs_cross(a, b, c, d):
    """Do the minor arcs a-b and c-d properly cross or touch?  Exact signs of triple products.
    Valid for arcs much shorter than a hemisphere (always the case here)."""
    A, B, C, D = vec(a), vec(b), vec(c), vec(d)
    s1 = _sgn(_ftriple(A, B, C))
    s2 = _sgn(_ftriple(A, B, D))
    s3 = _sgn(_ftriple(C, D, A))
    s4 = _sgn(_ftriple(C, D, B))
    if s1 * s2 < 0 and s3 * s4 < 0:
        return True
    if s1 * s2 > 0 or s3 * s4 > 0:
        return False
    # touching / collinear configurations: decide by point-on-arc distances
    eps = 1e-6
    return (min(gc_point_segment(a, c, d)[0], gc_point_segment(b, c, d)[0],
                gc_point_segment(c, a, b)[0], gc_point_segment(d, a, b)[0]) < eps)


def gc_segseg(a, b, c, d):
    if gc_arcs_cross(a, b, c, d):
        return 0.0
    return min(gc_point_segment(a, c, d)[0], gc_point_segment(b, c, d)[0],
               gc_point_segment(c, a, b)[0], gc_point_segment(d, a, b)[0])


def ae_place(center, pts_yx):
    """Azimuthal-equidistant placement of planar metre coordinates (y north, x east) about
    `center` (lat, lon): returns (lat, lon) for every (y, x)."""
    out = []
    for y, x in pts_yx:
        d = math.hypot(x, y)
        if d == 0:
            out.append((center[0], center[1]))
        else:
            out.append(gc_dest(center, math.degrees(math.atan2(x, y)), d))
    return out
