"""C01 Emitting-only matching returns a maximum-probability walk.

Monitor shape: history + executable reference model.  The result of every real `match` call
(non-emitting states off, no width, first-order transition model) is compared with the optimum
of an independent reference HMM over the raw graph (refmodel): matched index = longest prefix
that some admissible walk explains, reported probability = the optimum for that prefix, and the
reported path, re-scored by the reference, is admissible and has the reported probability.
"""
import logging
import math

from .. import env
from .. import gen, build, mcase
from ..refmodel import RefHMM
from ..mapmodel import MapModel

ID = "C01"
CASES = {"quick": 12000, "thorough": 300000}
MIN_CASES_PER_SHARD = 50
CASE_TIMEOUT = 30
RULE = ("one case = generated planar map (random / dyadic grid / chain; one-way streets, dead ends, self-listed neighbours, zero-length "
        "roads; int, string and gapped labels) x trace (noisy walk, sparse, outliers, on nodes/roads, repeats, length 1) x configuration "
        "(simple edge states / simple node-and-edge states / distance; noise; max_dist, max_dist_init, min_prob_norm absent, random, or "
        "set to a value observed in a first pass over the same input); 30 % of the cases reuse one matcher object (another trace, often stopping early, is matched first) and 15 % run with the package logger at DEBUG. Non-trivial = >= 2 observations and some lattice column with >= 2 "
        "live candidates; distinct = hash of the case")
ANCHORS = [("leuvenmapmatching/matcher/base.py", "BaseMatching.update"),
           ("leuvenmapmatching/matcher/base.py", "LatticeColumn.upsert"),
           ("leuvenmapmatching/matcher/base.py", "BaseMatcher._match_states"),
           ("leuvenmapmatching/matcher/base.py", "BaseMatcher.do_stop"),
           ("leuvenmapmatching/matcher/base.py", "BaseMatcher._create_start_nodes"),
           ("leuvenmapmatching/matcher/base.py", "BaseMatcher._build_matching_path"),
           ("leuvenmapmatching/matcher/base.py", "BaseMatcher._build_node_path"),
           ("leuvenmapmatching/matcher/simple.py", "SimpleMatcher.logprob_trans"),
           ("leuvenmapmatching/matcher/distance.py", "DistanceMatcher.logprob_trans")]
FLOORS = {"optimum_comparisons_nontrivial": 500, "early_stops": 50, "no_start_candidate": 30, "dp_vs_bruteforce": 20,
          "family:simple": 300, "family:simple_nodes": 300, "family:distance": 300, "tightened_cases": 300,
          "paths_rescored_by_reference": 1000, "threshold_hit_exactly": 20, "reused_matcher_cases": 500, "debug_level_cases": 500, "grown_map_cases": 300, "tiny_scale_cases": 300, "dense_cases_more_than_100_candidates": 40, "map_distances_checked_against_exact_geometry": 50000}
ASSUMPTIONS = ["the distance/projection of an observation on a state is taken from the map's own primitive so that threshold decisions are "
               "bit-identical (those primitives are judged by C05/C13); everything else (states, successors, scores, stop rule, DP) is independent",
               "cases in which a normalised probability falls within 1e-9 relative of min_prob_norm (or exactly on it: the reference's own score formula "
               "rounds differently from the implementation's) are skipped as borderline; exact equality is judged for distance thresholds only",
               "log-probabilities compared at 1e-9*max(1,|x|)"]


def gen_case(rng, i, tier):
    if i % 150 == 77:
        # more than 100 live candidates in one column (car-park class of C06): bounds inside the implementation bite here
        from .C06 import gen_dense_case
        case = gen_dense_case(rng)
        case["dense"] = True
        return case
    case = mcase.gen_mcase(rng, ne=False, width=False, agb=False, tighten_p=0.4)
    if rng.random() < 0.3:
        # the matcher object is reused: another trace on the same map is matched first (often stopping early),
        # then the judged trace with a plain match() call.  The optimum does not depend on the matcher's past.
        pre = gen.gen_trace(rng, case["map"], k=rng.randint(2, 7), kind=rng.choice(["walk", "outlier", "outlier", "sparse"]))
        if rng.random() < 0.6 and len(pre) >= 2:
            j = rng.randrange(1, len(pre))
            pre[j] = [pre[j][0] + 9.0, pre[j][1] - 7.0]
        case["pre_trace"] = pre
        case["pre_expand"] = rng.random() < 0.5   # the earlier trace is matched in two steps (prefix, then expand=True)
        if rng.random() < 0.35:
            # the map object grows after its first use: some roads are added (InMemMap.add_edge) only after the earlier trace
            # was matched on it; the judged match uses the full graph
            es = [e for e in case["map"]["edges"] if e[0] != e[1]]
            if len(es) >= 3:
                case["late_edges"] = [list(e) for e in rng.sample(es, rng.randint(1, min(3, len(es) - 1)))]
    # the optimum does not depend on the log level: a fraction of the cases runs with the package logger at DEBUG, where
    # candidates that fail a cut-off are kept in the lattice as stopped matchings
    case["debug"] = rng.random() < 0.15
    if rng.random() < 0.1 and not case["map"].get("latlon"):
        # tiny coordinate units (raw degrees, kilometres, normalised coordinates): everything scaled exactly by 2^-k
        sc = 2.0 ** -rng.choice([7, 10, 14, 17])
        case["map"] = gen.transform_map(case["map"], sc)
        case["trace"] = gen.transform_trace(case["trace"], sc)
        if case.get("pre_trace"):
            case["pre_trace"] = gen.transform_trace(case["pre_trace"], sc)
        for key in ("obs_noise", "obs_noise_ne", "dist_noise", "dist_noise_ne", "max_dist", "max_dist_init"):
            if case["cfg"].get(key) is not None:
                case["cfg"][key] *= sc
        case["tiny"] = True
    return case


def close(a, b):
    return abs(a - b) <= 1e-9 * max(1.0, abs(a), abs(b))


def run_real(case, fullscan=False):
    late = [tuple(e) for e in case.get("late_edges") or []]
    if late:
        m0 = dict(case["map"])
        m0["edges"] = [e for e in case["map"]["edges"] if tuple(e) not in late]
        mp = build.make_inmem(m0)
    else:
        mp = build.make_inmem(case["map"])
    if fullscan:
        mcase.patch_fullscan(mp)
    mt = build.make_matcher(mp, case["cfg"])
    if case.get("debug"):
        env.logger.setLevel(logging.DEBUG)
    try:
        if case.get("pre_trace"):
            try:
                pre = build.trace(case["pre_trace"])
                if case.get("pre_expand") and len(pre) >= 2:
                    mt.match(pre[:max(1, len(pre) // 2)])
                    mt.match(pre, expand=True)
                else:
                    mt.match(pre)
            except Exception:
                pass
        if late:
            for a, b in late:
                mp.add_edge(a, b)
            mt = build.make_matcher(mp, case["cfg"])  # a new matcher on the same, grown map object
        res = mt.match(build.trace(case["trace"]))
    finally:
        env.logger.setLevel(logging.ERROR)
    return mp, mt, res


def judge(case, mp, mt, res):
    """-> list of (signature-kind, explanation); also returns stats"""
    path = build.trace(case["trace"])
    ref = RefHMM(case["map"], case["cfg"], mp.distance_point_to_segment, mp.distance)
    cols = ref.run(path)
    out = []
    stats = {"ref": ref, "cols": cols}
    # the reference takes distances from the map's own primitive (bit-identical thresholds); that trust is checked at run
    # time: every distance the reference used is compared with the exact geometry of the generated map
    model = MapModel(case["map"])
    fam = case["cfg"]["family"]
    nchk = 0
    for (s, i), (d, pi, t) in ref._emis_cache.items():
        if isinstance(s, tuple) and s in model.edgeset:
            de, te, qe = model.pt_edge(tuple(path[i][:2]), s)
            nchk += 1
            if not abs(d - de) <= model.tol_edge(path[i], s, de):
                out.append((f"geometry:map-primitive-differs-from-exact-geometry:{'latlon' if model.latlon else 'planar'}",
                            f"distance of observation {i} {tuple(path[i][:2])} to road {s} {model.coords[s[0]]}-{model.coords[s[1]]}: "
                            f"the map says {d!r}, exact {de!r}"))
                break
    stats["geometry_checked"] = nchk
    if out:
        return out, stats
    if ref.borderline:
        return None, stats
    states, idx = res
    if not cols[0]:
        if not (states == [] and idx == 0):
            out.append((f"nonempty-result-without-admissible-start:{fam}", f"returned {states!r}, {idx}; reference finds no admissible start candidate"))
        return out, stats
    if not states:
        out.append((f"empty-result-although-start-exists:{fam}", f"returned {states!r}, {idx}; reference start candidates {sorted(cols[0], key=repr)[:6]}"))
        return out, stats
    ridx = len(cols) - 1
    rbest = max(v[0] for v in cols[-1].values())
    if idx != ridx:
        out.append((f"index:{fam}", f"matched index {idx}, longest admissible prefix ends at {ridx} (trace length {len(path)})"))
        return out, stats
    lb = mt.lattice_best
    rep = lb[-1].logprob
    col = mt.lattice[idx]
    live = [x.logprob for x in col.values(0) if not x.stop]
    best_live = max(live) if live else None
    if not close(rep, rbest):
        out.append((f"probability:{fam}", f"reported best log-probability {rep!r} (best live in column {best_live!r}), reference optimum {rbest!r} for prefix 0..{ridx}"))
    walk = [x.shortkey for x in lb]
    if len(walk) == idx + 1:
        sc = ref.score_walk(walk, path)
        stats["rescored"] = True
        if isinstance(sc, str):
            out.append((f"reported-path-not-admissible:{fam}", f"{sc}; path {walk}"))
        elif not close(sc, rep):
            out.append((f"reported-path-has-other-probability:{fam}", f"path {walk} has model log-probability {sc!r}, reported {rep!r}"))
    return out, stats


def check_case(ctx, case):
    path = build.trace(case["trace"])
    fam = case["cfg"]["family"]
    try:
        mp, mt, res = run_real(case)
    except Exception as e:
        ctx.count("match_raised")  # totality is C17's property
        ctx.count(f"match_raised:{type(e).__name__}")
        return
    ctx.evaluated()
    ctx.count(f"family:{fam}")
    if case.get("tightened"):
        ctx.count("tightened_cases")
    if case.get("debug"):
        ctx.count("debug_level_cases")
    if case.get("late_edges"):
        ctx.count("grown_map_cases")
    if case.get("pre_trace"):
        ctx.count("reused_matcher_cases")
        if mt.early_stop_idx is not None or True:
            pass
    verdicts, stats = judge(case, mp, mt, res)
    ctx.count("map_distances_checked_against_exact_geometry", stats.get("geometry_checked", 0))
    if case.get("tiny"):
        ctx.count("tiny_scale_cases")
    if case.get("dense"):
        ctx.count("dense_cases_more_than_100_candidates")
    if verdicts is None:
        ctx.count("skipped_borderline")
        return
    ref, cols = stats["ref"], stats["cols"]
    if stats.get("rescored"):
        ctx.count("paths_rescored_by_reference")
    if not cols[0]:
        ctx.count("no_start_candidate")
    elif len(cols) < len(path):
        ctx.count("early_stops")
    # thresholds hit exactly by some (state, observation) pair that the reference looked at
    md = ref.max_dist
    if not math.isinf(md) and any(d == md for (d, _, _) in ref._emis_cache.values()):
        ctx.count("threshold_hit_exactly")
    nontrivial = len(path) >= 2 and any(len(c) >= 2 for c in cols)
    if nontrivial:
        ctx.count("optimum_comparisons_nontrivial")
        ctx.nontriv(case)
    # DP cross-check by brute force on tiny instances
    nstates = len(list(ref.edges())) if ref.only_edges else len(ref.coords) + len(list(ref.edges()))
    if len(path) <= 4 and nstates <= 8:
        b = ref.brute(path)
        if b is not None:
            ctx.count("dp_vs_bruteforce")
            L, best = b
            dpL = len(cols) if cols[0] else 0
            dpbest = max(v[0] for v in cols[-1].values()) if cols[0] else None
            if L != dpL or (best is not None and not close(best, dpbest)):
                raise AssertionError(f"reference DP disagrees with brute force: DP ({dpL},{dpbest}) brute ({L},{best}) case={case}")
    if verdicts:
        # fault localisation: does the disagreement come from the recorded InMemMap.edges_closeto defect only?
        via = False
        if ref.only_edges and not math.isinf(ref.max_dist_init):
            try:
                mp2, mt2, res2 = run_real(case, fullscan=True)
                v2, _ = judge(case, mp2, mt2, res2)
                via = (v2 == [])
                if via:
                    # ... and is it the RECORDED mechanism?  Every admissible start road that the real run lacks must have
                    # its start node outside the search box of radius max_dist_init around the first observation; a start
                    # road lost although its start node is inside that box is something else (e.g. a smaller radius asked)
                    have = {x.shortkey for x in mt.lattice[0].values(0)} if mt.lattice else set()
                    lost = [s_ for s_ in cols[0] if s_ not in have] if cols and cols[0] else []
                    yb, xl, yt, xr = mp.box_around_point(tuple(path[0][:2]), ref.max_dist_init)
                    for s_ in lost:
                        a_ = ref.coords[s_[0]]
                        if yb <= a_[0] <= yt and xl <= a_[1] <= xr:
                            via = False
                            verdicts = [(k_ + ":start-road-lost-although-its-start-node-is-inside-the-search-box", w_) for k_, w_ in verdicts]
                            break
                    if not lost:
                        via = False
            except Exception:
                via = False
        for kind, why in verdicts:
            if via:
                ctx.violation("C01:via:C11:inmem-edges_closeto-start-node-prefilter", case,
                              f"{kind}: {why} -- disappears when InMemMap.edges_closeto is replaced by a full scan")
            else:
                ctx.violation(f"C01:{kind}", case, why)
    ctx.sample(case)


TECHNIQUE = "runtime monitoring: reference-model oracle (independent Viterbi optimum over the raw graph, DP cross-checked by brute force) on generated hostile inputs incl. exact-threshold class"
LEVEL_TEXT = ("{Q} (quick) / {T} (thorough) real match() runs compared with the optimum of an independent reference HMM: matched index = longest "
              "admissible prefix, reported probability = optimum, reported path admissible with that probability; thresholds are hit exactly in a "
              "dedicated workload class. Held-on-observed; a recorded base-layer defect (C11) is fault-localised, any other disagreement fails.")
LEVEL_NOTE = ("Trusted: the reference HMM (its DP is cross-checked by brute-force enumeration on tiny instances every run), the map's point/segment "
              "primitives for emission geometry (judged separately by C05/C13). Maps <= 14 nodes, traces <= 10 observations.")
