"""C07 Width pruning is sound and widening is monotone.

Three monitors:
1. online window monitor (monitors.WindowMonitor) on the live pruning bookkeeping at every
   expansion boundary of every real run - the part no output comparison can see;
2. pruned vs unpruned sibling executions (one configuration dict, only `width` differs);
3. widening histories on one matcher (non-decreasing widths).
"""
import math

from .. import env  # noqa: F401
from .. import gen, build, mcase, monitors, oracles

ID = "C07"
CASES = {"quick": 6000, "thorough": 150000}
MIN_CASES_PER_SHARD = 40
CASE_TIMEOUT = 60
RULE = ("one case = generated map x trace x configuration with max_lattice_width W in 1..4 (all families, non-emitting on/off, avoid_goingback "
        "on/off, cut-offs, exact ties from dyadic grids) x a history of extend / widen calls with non-decreasing widths, plus the unpruned "
        "sibling run and a run with W >= number of candidates. Non-trivial = some expansion window had a postponed candidate or pruning "
        "changed the result; distinct = hash of the case")
ANCHORS = [("leuvenmapmatching/matcher/base.py", "LatticeColumn.prune"),
           ("leuvenmapmatching/matcher/base.py", "BaseMatcher.increase_max_lattice_width"),
           ("leuvenmapmatching/matcher/base.py", "BaseMatcher._match_states"),
           ("leuvenmapmatching/matcher/base.py", "BaseMatcher._match_non_emitting_states"),
           ("leuvenmapmatching/matcher/base.py", "BaseMatching._update_inner")]
FLOORS = {"windows": 8000, "windows_with_postponed": 1500, "ne_windows_with_postponed": 200, "tie_extension_windows": 100,
          "widenings": 400, "pruned_vs_unpruned": 1500, "pruning_changed_result": 80, "wide_enough_runs": 800, "parents_checked": 8000,
          "widening_complete_to_complete": 150, "ne_filter_entries_compared": 3000, "ne_filter_entries_compared_pruned": 800, "pruned_vs_unpruned:exhaustive-configuration": 1500, "end_parents_checked": 20000, "end_parents_from_earlier_rounds": 300}
ASSUMPTIONS = ["'plus exact ties' is read as part of the definition of the expanded set: a candidate exactly tied with an expanded one is expanded "
               "too, hence the strict clause max(postponed) < min(expanded) (validated on the unchanged tree, DESIGN.md C07)",
               "pruned-vs-unpruned and widening clauses compare first-order or second-order runs alike: only index and best probability",
               "sibling executions are built from one configuration dict with only `width` changed"]


def shard_setup(ctx):
    mon = monitors.WindowMonitor(successors_of=lambda matcher, m: True)
    mon.install()
    ctx.state["mon"] = mon


def shard_teardown(ctx):
    mon = ctx.state["mon"]
    mon.uninstall()
    for k, v in mon.cnt.items():
        ctx.count(k, v)


def gen_case(rng, i, tier):
    if i % 200 == 13:
        case = mcase.gen_large_mcase(rng, width=True)
        case["ops"] = gen.gen_history(rng, len(case["trace"]), case["cfg"]["width"], allow_cwd=False, allow_restart=False, max_ops=2, unique=False)
        return case
    case = mcase.gen_mcase(rng, families=gen.FAMILIES_ALL, width=True, tighten_p=0.25, sparse_p=0.35, max_obs=10,
                           kinds=("random", "grid", "grid", "chain", "chain_dyadic"))
    n = len(case["trace"])
    case["ops"] = gen.gen_history(rng, n, case["cfg"]["width"], allow_cwd=False, allow_restart=False, max_ops=4, unique=False)
    gen.add_pre_trace(rng, case)   # the matcher object may have matched another trace before / matches one afterwards
    return case


def close_leq(a, b):
    """a <= b up to 1e-9 relative (equal infinities compare equal)"""
    if a == b:
        return True
    if math.isinf(a) or math.isinf(b):
        return a < b
    return a <= b + 1e-9 * max(1.0, abs(a), abs(b))


def summary(mt, res, n):
    c = build.canon(mt, res)
    c["complete"] = (not c["empty"]) and c["idx"] == n - 1
    return c


def max_candidates(mt):
    mx = 0
    for col in mt.lattice.values():
        for layer in col.o:
            mx = max(mx, len(layer))
    return mx


def no_revisit_evidence(p_mt, u_mt, tol=1e-9):
    """Fault localisation for 'a pruned run found a better path than the unpruned run' with non-emitting states: walk the pruned
    run's best path and look for a step P -> X out of a NON-EMITTING state P such that the unpruned lattice holds P at least
    as probable but with ANOTHER best predecessor, holds X less probable (or not at all), and the search's own visited-node
    rule (_node_in_prev_ne, which walks the best-predecessor chain) forbids the move P -> X in the unpruned lattice.
    Then the per-state maximum kept by the column update was not a sufficient statistic: a path-dependent constraint."""
    lb = p_mt.lattice_best or []

    def entry(mt, x):
        col = (mt.lattice or {}).get(x.obs)
        if col is None or x.obs_ne >= len(col.o):
            return None
        return col.o[x.obs_ne].get(x.key)
    for P, X in zip(lb, lb[1:]):
        Pu, Xu = entry(u_mt, P), entry(u_mt, X)
        if P.obs_ne == 0:
            # second path-dependent ingredient (DistanceMatcher only): the transition INTO a non-emitting state adds the
            # distances (d_o, d_s) accumulated by the predecessor, i.e. by the predecessor's own best predecessor
            if (X.obs_ne != 0 and hasattr(P, "d_o") and Pu is not None and not Pu.stop
                    and Pu.logprob >= P.logprob - tol * max(1.0, abs(P.logprob))
                    and {q.key for q in Pu.prev} != {q.key for q in P.prev}
                    and (abs(Pu.d_o - P.d_o) > 1e-12 or abs(Pu.d_s - P.d_s) > 1e-12)
                    and (Xu is None or Xu.stop or Xu.logprob < X.logprob - tol * max(1.0, abs(X.logprob)))):
                return ("accumulated-distances", f"step {P.key} -> {X.key}: unpruned holds {P.key} at {Pu.logprob!r} (pruned {P.logprob!r}) reached from "
                        f"{[q.key for q in Pu.prev]} with accumulated (d_o, d_s) = ({Pu.d_o!r}, {Pu.d_s!r}) instead of ({P.d_o!r}, {P.d_s!r}); the transition into the "
                        f"non-emitting state {X.key} adds them and comes out at {None if Xu is None else Xu.logprob!r} instead of {X.logprob!r}")
            continue
        if Pu is None or Pu.stop:
            continue
        if not (Pu.logprob >= P.logprob - tol * max(1.0, abs(P.logprob))):
            continue
        if {q.key for q in Pu.prev} == {q.key for q in P.prev}:
            continue
        if Xu is not None and not Xu.stop and Xu.logprob >= X.logprob - tol * max(1.0, abs(X.logprob)):
            continue
        if (Xu is not None and not Xu.stop and {q.key for q in Xu.prev} == {P.key} and {q.key for q in X.prev} == {P.key}
                and abs((Xu.logprob - Pu.logprob) - (X.logprob - P.logprob)) > 1e-9 * max(1.0, abs(X.logprob))
                and (abs(Pu.logprobe - P.logprobe) > 1e-12 or abs(Pu.logprobne - P.logprobne) > 1e-12)):
            # third path-dependent ingredient (BaseMatching.next: a non-emitting chain scores logprobe + min(step scores), not a sum, so the
            # total of P does not determine the total of X - the split (logprobe, logprobne) of P does): BOTH lattices hold the step P -> X (X's recorded predecessor is P in both), the unpruned
            # one starts it from a P that is at least as probable but was reached from another predecessor, and scores the SAME step differently
            return ("step-score", f"step {P.key} -> {X.key} is held by both lattices with {P.key} as the recorded predecessor; unpruned holds {P.key} at {Pu.logprob!r} "
                    f"(pruned {P.logprob!r}) reached from {[q.key for q in Pu.prev]} instead of {[q.key for q in P.prev]}, and scores the step "
                    f"{Xu.logprob - Pu.logprob!r} instead of {X.logprob - P.logprob!r}: split (logprobe, logprobne) of {P.key} is "
                    f"({Pu.logprobe!r}, {Pu.logprobne!r}) instead of ({P.logprobe!r}, {P.logprobne!r})")
        try:
            forbidden = u_mt._node_in_prev_ne(Pu, X.edge_m.l2 if X.edge_m.l2 is not None else X.edge_m.l1)
        except Exception:
            forbidden = False
        if forbidden:
            return "no-revisit", f"step {P.key} -> {X.key}: unpruned holds {P.key} at {Pu.logprob!r} (pruned {P.logprob!r}) with predecessor {[q.key for q in Pu.prev]} instead of {[q.key for q in P.prev]}; its chain has visited the end node of {X.key}, so the move is not made"
    return None


def check_case(ctx, case):
    if case.get("large"):
        ctx.count("large_map_cases")
    mon = ctx.state["mon"]
    tr = build.trace(case["trace"])
    cfg = case["cfg"]
    nv0 = len(mon.viol)
    w0 = mon.cnt["windows_with_postponed"]
    # (3) widening / extension history on one matcher, observed online by (1)
    mp = build.make_inmem(case["map"])
    mt = build.make_matcher(mp, cfg)
    prev = None
    hist = []

    def after(i, op, res, exc):
        nonlocal prev
        if exc is not None:
            ctx.count("op_raised")
            prev = None
            return
        if op["op"] == "pre":
            ctx.count("histories_on_a_reused_matcher")
            prev = None
            return
        k = op.get("k", len(mt.path))
        cur = summary(mt, res, len(mt.path))
        cur["k"] = len(mt.path)
        hist.append((op, cur))
        if op["op"] == "widen" and prev is not None and prev["k"] == cur["k"]:
            ctx.count("widenings")
            ctx.evaluated()
            pidx = -1 if prev["empty"] else prev["idx"]
            cidx = -1 if cur["empty"] else cur["idx"]
            if cidx < pidx:
                ctx.violation("C07:widening-shortened-the-match", case, f"after {op}: index {pidx} -> {cidx}; history {hist}")
            elif prev["complete"] and cur["complete"]:
                ctx.count("widening_complete_to_complete")
                if not close_leq(prev["best"], cur["best"]):
                    ctx.violation("C07:widening-lowered-the-best-probability", case, f"after {op}: {prev['best']!r} -> {cur['best']!r}")
        prev = cur
    monitors.run_history(mt, tr, case["ops"], after=after)
    # (1) online window monitor verdicts produced during this case
    for kind, where, text in mon.viol[nv0:nv0 + 3]:
        ctx.violation(f"C07:window:{kind}:{where[0]}", case, f"at {where}: {text}")
    # (2) pruned vs unpruned siblings, full trace
    res = {}
    sib = {}
    for name, w in (("pruned", cfg["width"]), ("unpruned", None)):
        c2 = dict(cfg)
        c2["width"] = w
        m2 = build.make_matcher(build.make_inmem(case["map"]), c2)
        sib[name] = m2
        try:
            r = m2.match(tr)
            res[name] = summary(m2, r, len(tr))
            res[name]["maxc"] = max_candidates(m2)
            if cfg["non_emitting"]:
                v, n = monitors.ne_filter_violations(m2)
                ctx.count("ne_filter_entries_compared", n)
                if name == "pruned":
                    ctx.count("ne_filter_entries_compared_pruned", n)
                for kind, text in v[:1]:
                    ctx.violation(f"C07:ne-filter:{kind}:{name}", case, f"[{name} run, W={w}] {text}")
        except Exception as e:
            res[name] = {"exc": repr(e)}
    for kind, where, text in mon.viol[nv0 + 3 + 0:][:0]:
        pass
    p, u = res["pruned"], res["unpruned"]
    if "exc" not in p and "exc" not in u:
        ctx.count("pruned_vs_unpruned")
        ctx.evaluated()
        pidx = -1 if p["empty"] else p["idx"]
        uidx = -1 if u["empty"] else u["idx"]
        # The clause presupposes that the unpruned search is exhaustive.  That is the case for first-order configurations with
        # an exact column update; three search heuristics of the repository break it (recorded findings, DESIGN.md 9.4):
        if cfg["non_emitting"] and cfg["family"] == "simple_nodes":
            mode = "heuristic:node-states-nonemitting-dedupe"
        elif cfg["non_emitting"] and cfg["family"] == "distance" and cfg.get("restrained_ne", True):
            mode = "heuristic:restrained-nonemitting-skip"
        elif cfg["agb"]:
            mode = "heuristic:second-order-penalties"
        else:
            mode = "exhaustive-configuration:" + cfg["family"] + (":non-emitting" if cfg["non_emitting"] else "")
        ev = ""
        if mode.startswith("exhaustive-configuration") and cfg["non_emitting"] and \
                (pidx > uidx or (p["complete"] and u["complete"] and not close_leq(p["best"], u["best"]))):
            # one more way in which the unpruned search is not exhaustive, recognised from evidence in the two lattices only
            why = no_revisit_evidence(sib["pruned"], sib["unpruned"])
            if why:
                mode = {"no-revisit": "heuristic:nonemitting-no-revisit-rule",
                        "accumulated-distances": "heuristic:distance-nonemitting-accumulated-distances",
                        "step-score": "heuristic:nonemitting-step-score-depends-on-predecessor"}[why[0]]
                ev = " | " + why[1]
        if pidx > uidx:
            ctx.violation(f"C07:pruned-run-matched-more-than-unpruned:{mode}", case, f"W={cfg['width']}: pruned idx {pidx}, unpruned idx {uidx}{ev}")
        elif p["complete"] and u["complete"] and not close_leq(p["best"], u["best"]):
            ctx.violation(f"C07:pruned-run-more-probable-than-unpruned:{mode}", case, f"W={cfg['width']}: pruned {p['best']!r} > unpruned {u['best']!r}{ev}")
        changed = (pidx != uidx) or (p["complete"] and u["complete"] and not oracles.close(p["best"], u["best"]))
        if changed:
            ctx.count("pruning_changed_result")
        ctx.count("pruned_vs_unpruned:" + mode.split(":")[0])
        # W >= number of candidates ever live in a layer: must coincide with the unpruned run
        c3 = dict(cfg)
        c3["width"] = max(1, u["maxc"])
        m3 = build.make_matcher(build.make_inmem(case["map"]), c3)
        try:
            r3 = m3.match(tr)
            w = summary(m3, r3, len(tr))
            ctx.count("wide_enough_runs")
            widx = -1 if w["empty"] else w["idx"]
            if widx != uidx or (w["best"] is not None and u["best"] is not None and not oracles.close(w["best"], u["best"])):
                ctx.violation("C07:wide-enough-run-differs-from-unpruned", case,
                              f"W={c3['width']} >= max candidates {u['maxc']}: idx {widx} best {w['best']!r} vs unpruned idx {uidx} best {u['best']!r}")
        except Exception:
            ctx.count("wide_run_raised")
        if changed or mon.cnt["windows_with_postponed"] > w0:
            ctx.nontriv(case)
    else:
        ctx.count("sibling_raised")
    for kind, where, text in mon.viol[nv0 + 3:]:
        # verdicts from the sibling runs (all are real executions too)
        ctx.violation(f"C07:window:{kind}:{where[0]}", case, f"[sibling run] at {where}: {text}")
        break
    ctx.sample(case)


# no result depends on the log level: a tenth of the cases runs with the package logger at DEBUG (replayable: the flag is
# part of the case / of the recorded witness)
_dbg_gen, _dbg_chk = env.debug_dimension(0.1)
gen_case = _dbg_gen(gen_case)
check_case = _dbg_chk(check_case)

# no clause depends on the map backend: a tenth of the eligible cases (integer labels, no linked edges) runs on SqliteMap
_bk_gen, _bk_chk = build.backend_dimension(0.12)
gen_case = _bk_gen(gen_case)
check_case = _bk_chk(check_case)

# no clause depends on the coordinate unit: 8 % of the planar cases are expressed in a small unit (everything x 2^-7..2^-17)
gen_case = mcase.scale_dimension(0.08)(gen_case)

TECHNIQUE = "runtime monitoring: online invariant monitor on the live pruning state at every expansion boundary + differential sibling executions (pruned/unpruned/wide) + widening histories"
LEVEL_TEXT = ("{Q} (quick) / {T} (thorough) generated cases; every expansion window of every real run (~10 per run, incl. non-emitting layers) is "
              "checked online for: expanded set within top-W plus ties, strict max(postponed) < min(expanded), next() only and always on the "
              "candidates of the current round; plus pruned<=unpruned (strict for exhaustive configurations; three search heuristics are recorded findings), wide-enough==unpruned, "
              "monotone widening on index and best probability, and an invariant on the non-emitting filter (a kept candidate is closer than the next observation's candidate, "
              "postponed or not) that keeps the pruned search space inside the unpruned one. Held-on-observed.")
LEVEL_NOTE = "Trusted: the monitor's reading of delayed/expand_now (validated against mutants, see selftest). Widths 1..6, traces <= 10 observations."
