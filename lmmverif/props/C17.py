"""C17 Matching is total on valid input and ignores timestamps.

Monitor shape: totality monitor + differential.  Every exception escaping `match` on a finite
map and a non-empty trace is an event classified by type, message stem and innermost repository
function; every trace is additionally run as (lat, lon, time) triples and must give exactly the
result of the pairs run.
"""
import math

from .. import env  # noqa: F401
from .. import gen, build, mcase, monitors, refgeo as rg
from .C05 import to_latlon

ID = "C17"
CASES = {"quick": 10000, "thorough": 300000}
MIN_CASES_PER_SHARD = 50
CASE_TIMEOUT = 240
RULE = ("one case = generated map (incl. zero-length roads, self-listed neighbours) x hostile trace (observations exactly on nodes / on roads / "
        "collinear with roads, repeated observations, dyadic coordinates) x configuration (all families, both metrics, non-emitting on/off, "
        "obs_noise incl. 1.3 and scaled values, cut-offs present or absent; latitude-longitude without any cut-off; every 150th case a sparse trace over a road of 150..2500 segments, every 1200th a dense trace of 1100..1600 observations), run with pairs and with "
        "(lat, lon, time) triples. Non-trivial = distinct (family, metric, non-emitting, trace class) cell member whose match is non-empty; "
        "distinct = hash of the case")
ANCHORS = [("leuvenmapmatching/matcher/base.py", "BaseMatching.next"),
           ("leuvenmapmatching/matcher/simple.py", "SimpleMatcher.logprob_obs"),
           ("leuvenmapmatching/util/dist_euclidean.py", "distance_segment_to_segment"),
           ("leuvenmapmatching/util/dist_latlon.py", "distance_point_to_segment"),
           ("leuvenmapmatching/util/dist_latlon.py", "distance_segment_to_segment"),
           ("leuvenmapmatching/util/dist_latlon.py", "box_around_point"),
           ("leuvenmapmatching/util/segment.py", "Segment")]
CELLS = [f"cell:{f}:{m}:{'ne' if n else 'e'}" for f in gen.FAMILIES_ALL for m in ("planar", "latlon") for n in (False, True)]
FLOORS = {c: 60 for c in CELLS}
FLOORS.update({"pairs_runs": 2500, "triples_runs": 2500, "zero_distance_observations": 1500, "latlon_without_cutoff": 250,
               "zero_length_road_maps": 150, "size_class:long_chain": 40, "reused_matcher_cases": 400, "container_runs:lists": 300, "container_runs:arrays": 300, "container_runs:array2d": 300, "container_runs:npfloat": 300, "size_class:long_trace": 5, "repeated_observation_traces": 200, "nonempty_matches": 1500})
ASSUMPTIONS = ["valid input = finite coordinates, non-empty trace, positive noise parameters; the trace may be entirely off the map",
               "pairs-vs-triples and container variants (lists, numpy arrays, one 2-d array, numpy scalars): canonical results must be equal (==)"]


def _chain_map(n, twoway, step=1.0):
    nodes = [[j, [0.0, step * j]] for j in range(n + 1)]
    edges = [[j, j + 1] for j in range(n)]
    if twoway:
        edges += [[j + 1, j] for j in range(n)]
    return {"nodes": nodes, "edges": edges, "latlon": False, "kind": "longchain"}


def gen_size_case(rng, i):
    """'every finite map and non-empty trace': sizes at which a bound inside the implementation (search depth, recursion per
    non-emitting level or per observation) would bite.  A sparse trace over a finely digitised road (150 .. 2500 segments
    between two observations), or a long dense trace (1100 .. 1600 observations)."""
    fam = rng.choice(gen.FAMILIES_ALL)
    if i % 150 == 11:
        n = rng.choice([150, 400, 990, 1100, 1500, 2500])
        cfg = gen.gen_cfg(rng, families=(fam,), ne=True, width="maybe", cut=False)
        cfg["max_dist_init"] = rng.choice([1.0, 3.0])
        m = _chain_map(n, rng.random() < 0.3)
        tr = [[0.2, 0.5], [0.2, n - 0.5]]
        if rng.random() < 0.4:
            tr.insert(1, [-0.1, n / 2.0])
        return {"map": m, "trace": tr, "cfg": cfg, "cls": "long_chain", "metric": "planar", "size": n}
    k = rng.choice([1100, 1300, 1600])
    cfg = gen.gen_cfg(rng, families=(fam,), ne=(rng.random() < 0.3), width="maybe", cut=False)
    cfg["max_dist"] = 2.0
    m = _chain_map(rng.choice([20, 60]), True)
    top = len(m["nodes"]) - 1
    tr = [[0.1 * ((j % 3) - 1), top * j / (k - 1.0)] for j in range(k)]
    return {"map": m, "trace": tr, "cfg": cfg, "cls": "long_trace", "metric": "planar", "size": k}


def gen_case(rng, i, tier):
    if i % 150 == 11 or i % 1200 == 77:
        return gen_size_case(rng, i)
    latlon = rng.random() < 0.45
    case = mcase.gen_mcase(rng, families=gen.FAMILIES_ALL, width="maybe", tighten_p=0.15, sparse_p=0.25, max_obs=8,
                           kinds=("random", "grid", "grid", "chain", "chain_dyadic"))
    m, tr = case["map"], case["trace"]
    c = gen.coords(m)
    labs = list(c)
    cls = rng.choice(["as_is", "on_nodes", "on_roads", "collinear", "repeat", "mixed"])
    es = gen.real_edges(m)
    new = []
    for k, p in enumerate(tr):
        r = rng.random()
        if cls == "on_nodes" or (cls == "mixed" and r < 0.3):
            q = c[rng.choice(labs)]
        elif (cls == "on_roads" or (cls == "mixed" and r < 0.6)) and es:
            a, b = rng.choice(es)
            t = rng.choice([0.25, 0.5, 0.75, 0.0, 1.0])
            q = (c[a][0] + t * (c[b][0] - c[a][0]), c[a][1] + t * (c[b][1] - c[a][1]))
        elif cls == "collinear" and es:
            a, b = rng.choice(es)
            t = rng.choice([-0.5, 1.5, 2.0, -1.0, 0.5])
            q = (c[a][0] + t * (c[b][0] - c[a][0]), c[a][1] + t * (c[b][1] - c[a][1]))
        elif cls == "repeat" and new:
            q = new[-1] if r < 0.6 else p
        else:
            q = p
        new.append([q[0], q[1]])
    case["trace"] = new
    case["cls"] = cls
    cfg = case["cfg"]
    cfg["obs_noise"] = rng.choice([1.3, 1.3, 0.25, 0.5, 1.0, 2.0, 0.7, 1.3 * 2 ** rng.randint(-3, 3), rng.uniform(0.1, 3)])
    if rng.random() < 0.5:
        cfg["max_dist"] = cfg["max_dist_init"] = cfg["min_prob_norm"] = None
    if latlon:
        to_latlon(case, rng)
    case["metric"] = "latlon" if latlon else "planar"
    if not latlon and rng.random() < 0.2:
        case["pre_trace"] = gen.gen_trace(rng, case["map"], k=rng.randint(1, 9))
    if rng.random() < 0.04:
        # the shortest trace there is, with start candidates that exist but all fail a cut-off, at DEBUG (where they are kept)
        case["trace"] = case["trace"][:1]
        u_ = 30.0 if latlon else 1.0
        cfg["max_dist_init"] = rng.choice([5.0, 20.0]) * u_
        if rng.random() < 0.5:
            cfg["max_dist"] = rng.choice([0.01, 0.05]) * u_
            q_ = case["trace"][0]
            case["trace"] = [[q_[0] + (0.0003 if latlon else 0.3), q_[1] + (0.0002 if latlon else 0.2)]]
        else:
            cfg["min_prob_norm"] = 0.999999
        case["debug"] = True
        case["cls"] = "one_observation_all_stopped"
    return case


def prepared_matcher(case, triples):
    """a matcher for the case; when the case says so it is not new: it matched another trace before (given in the other
    form), possibly in two steps with an expansion and a widening round (which leaves the matcher with the larger width)."""
    mt = build.make_matcher(build.make_inmem(case["map"]), case["cfg"])
    if case.get("pre_trace"):
        pre = build.trace(case["pre_trace"] if triples else gen.with_time(case["pre_trace"]))
        if len(pre) >= 2 and len(pre) % 2 == 0:
            mt.match(pre[:len(pre) // 2])
            mt.match(pre, expand=True)
            if case["cfg"].get("width"):
                mt.increase_max_lattice_width(case["cfg"]["width"] + 1)
        else:
            mt.match(pre)
    return mt


def run(case, triples):
    mt = prepared_matcher(case, triples)
    tr = case["trace"]
    if triples:
        tr = gen.with_time(tr)
    r = mt.match(build.trace(tr))
    return mt, r


def check_case(ctx, case):
    cfg = case["cfg"]
    metric = case["metric"]
    cell = f"cell:{cfg['family']}:{metric}:{'ne' if cfg['non_emitting'] else 'e'}"
    ctx.count(cell)
    if case["cls"] in ("long_chain", "long_trace"):
        ctx.count(f"size_class:{case['cls']}")
    if metric == "latlon" and cfg["max_dist"] is None and cfg["max_dist_init"] is None:
        ctx.count("latlon_without_cutoff")
    if case.get("pre_trace"):
        ctx.count("reused_matcher_cases")
    if "+zero" in case["map"].get("kind", ""):
        ctx.count("zero_length_road_maps")
    tr = case["trace"]
    if any(a == b for a, b in zip(tr, tr[1:])):
        ctx.count("repeated_observation_traces")
    res = {}
    for triples in (False, True):
        ctx.evaluated()
        ctx.count("triples_runs" if triples else "pairs_runs")
        try:
            mt, r = run(case, triples)
        except Exception as e:
            t, fn, stem = monitors.classify_exception(e)
            ctx.violation(f"C17:exc:{t}:{fn}:{stem}:{metric}:{'triples' if triples else 'pairs'}", case, f"{type(e).__name__}: {e}")
            res[triples] = None
            continue
        if not (isinstance(r, tuple) and len(r) == 2 and isinstance(r[0], list) and isinstance(r[1], int)):
            ctx.violation(f"C17:result-not-a-(list,int)-pair:{metric}", case, repr(r)[:200])
            res[triples] = None
            continue
        res[triples] = build.canon(mt, r)
        if not triples:
            if r[0]:
                ctx.count("nonempty_matches")
                ctx.nontriv(f"{cell}:{case['cls']}:{ctx.cases}")
            ctx.count("zero_distance_observations", sum(1 for x in (mt.lattice_best or []) if x.dist_obs == 0))
    # the same observations in another container (lists, numpy arrays, one 2-d array, numpy scalars): same result
    if res[False] is not None and ctx.cases % 4 == 0 and case["cls"] not in ("long_chain", "long_trace"):
        import numpy as np
        kind = ["lists", "arrays", "array2d", "npfloat", "tuple_of_tuples"][(ctx.cases // 4) % 5]
        pts = [tuple(p) for p in case["trace"]]
        alt = {"lists": [list(p) for p in pts], "arrays": [np.array(p) for p in pts], "array2d": np.array(pts),
               "npfloat": [tuple(np.float64(x) for x in p) for p in pts], "tuple_of_tuples": tuple(pts)}[kind]
        ctx.count(f"container_runs:{kind}")
        try:
            mt_c = prepared_matcher(case, False)
            r_c = mt_c.match(alt)
            c_c = build.canon(mt_c, (list(r_c[0]), r_c[1]))
            if c_c != res[False]:
                ctx.violation(f"C17:container-changes-the-result:{kind}:{cfg['family']}:{metric}", case, f"tuples {str(res[False])[:300]} {kind} {str(c_c)[:300]}")
        except Exception as e:
            t, fn, stem = monitors.classify_exception(e)
            ctx.violation(f"C17:exc:{t}:{fn}:{stem}:{metric}:container-{kind}", case, f"{type(e).__name__}: {e}")
    a, b = res[False], res[True]
    if a is not None and b is not None and a != b:
        if a["empty"] != b["empty"] or a["idx"] != b["idx"]:
            kind = "index"
        elif [k for k, _ in a["path"]] != [k for k, _ in b["path"]]:
            kind = "path"
        else:
            kind = "probability"
        ctx.violation(f"C17:triples-change-the-result:{kind}:{cfg['family']}:{metric}", case, f"pairs {str(a)[:400]} triples {str(b)[:400]}")
    ctx.sample(case)


# no result depends on the log level: a tenth of the cases runs with the package logger at DEBUG (replayable: the flag is
# part of the case / of the recorded witness)
_dbg_gen, _dbg_chk = env.debug_dimension(0.1)
gen_case = _dbg_gen(gen_case)
check_case = _dbg_chk(check_case)

# no clause depends on the map backend: a tenth of the eligible cases (integer labels, no linked edges) runs on SqliteMap
_bk_gen, _bk_chk = build.backend_dimension(0.12)
gen_case = _bk_gen(gen_case)
check_case = _bk_chk(check_case)

# no clause depends on the coordinate unit: 8 % of the planar cases are expressed in a small unit (everything x 2^-7..2^-17)
gen_case = mcase.scale_dimension(0.08)(gen_case)

TECHNIQUE = "runtime monitoring: totality monitor (classified exceptions escaping match on generated hostile valid inputs) + pairs-vs-triples differential"
LEVEL_TEXT = ("{Q} (quick) / {T} (thorough) generated hostile valid inputs in every (family, metric, non-emitting) cell, each matched with pairs and with "
              "time triples; any escaping exception is a violation classified by origin; the two results must be equal. Held-on-observed.")
LEVEL_NOTE = "Trusted: the notion of valid input stated in the assumptions. InMemMap only (SqliteMap is covered by C04/C12)."
