"""C15 Latitude-longitude matching agrees with planar matching.

Monitor shape: differential monitor over sibling executions: a street-scale planar case in metres
and the same case placed on the sphere by an azimuthal-equidistant mapping computed with the
*reference* vector geometry (own direct geodesic, not the repository's `destination`).
"""
import math

from .. import env  # noqa: F401
from .. import gen, build, mcase, refgeo as rg

ID = "C15"
CASES = {"quick": 12000, "thorough": 150000}
MIN_CASES_PER_SHARD = 30
CASE_TIMEOUT = 40
SCALE = 30.0
RULE = ("one case = planar map x trace x emitting-only configuration without cut-offs (simple edge states, simple node-and-edge states, "
        "distance), coordinates in metres (extent <= 500 m, noise parameters >= 5 m), matched as is and after placement at a random latitude "
        "|lat| <= 60 and any longitude. Non-trivial = >= 3 observations and on average >= 2 live candidates per column; distinct = hash of the case")
ANCHORS = [("leuvenmapmatching/map/base.py", "BaseMap.use_latlon"),
           ("leuvenmapmatching/matcher/base.py", "BaseMatching.next"),
           ("leuvenmapmatching/matcher/distance.py", "DistanceMatcher.logprob_trans"),
           ("leuvenmapmatching/util/dist_latlon.py", "distance_point_to_segment"),
           ("leuvenmapmatching/util/dist_latlon.py", "distance")]
FLOORS = {"pairs_compared": 1200, "complete_matches_compared": 900, "family:simple": 300, "family:simple_nodes": 300, "family:distance": 300,
          "southern_hemisphere": 300, "high_latitude": 150, "straddles_antimeridian": 60, "linked_map_pairs": 600, "sqlite_pairs": 500, "metric_selected_after_matcher_creation": 300, "linked_map_pairs_with_links": 200}
ASSUMPTIONS = ["index must be equal; best log-probability within 1e-2*max(1,|x|) (the 0.1 m noise floor of the cross-/along-track formulation, "
               "propagated through d*delta/sigma^2 per step); finer errors of the geodesic primitives are C14's business",
               "node-and-edge mode decides 'edge or end node' by the relative position with an absolute 1e-8 tolerance: cases in which an "
               "observation projects within 1e-6 of an edge end in the planar run are skipped as borderline (the 0.1 m noise floor moves the "
               "relative position by more than the tolerance)",
               "with avoid_goingback the penalty for going back on the same edge compares two relative positions with '<': cases in which two "
               "consecutive observations project within 0.5 m of each other on some edge (not both clamped to the same end) are skipped as borderline"]


def gen_links_case(rng):
    """SqliteMap with diagonal pairs of parallel roads at various separations; parallel roads are linked with
    connect_parallelroads(D) in both metrics, then a trace that changes from one road of a pair to the other is matched."""
    m = gen.map_random(rng, n=rng.randint(4, 7), labels="int")
    m = gen.transform_map(m, SCALE)
    nid = max(l for l, _ in m["nodes"]) + 1
    base_labs = [l for l, _ in m["nodes"]]
    D = rng.choice([20.0, 40.0])
    pairs = []
    for _ in range(rng.randint(1, 3)):
        th = math.radians(rng.uniform(20, 70)) * rng.choice([1, -1])
        L = rng.uniform(60, 150)
        p = (rng.uniform(0, 200), rng.uniform(0, 200))
        v = (math.cos(th), math.sin(th))
        w = (-v[1], v[0])
        sep = D * rng.choice([0.4, 0.7, 1.5, 3.0])
        al = rng.uniform(-0.2, 0.2) * L
        a1, a2 = p, (p[0] + L * v[0], p[1] + L * v[1])
        b1 = (p[0] + sep * w[0] + al * v[0], p[1] + sep * w[1] + al * v[1])
        b2 = (b1[0] + L * v[0], b1[1] + L * v[1])
        ids = [nid, nid + 1, nid + 2, nid + 3]
        nid += 4
        m["nodes"] += [[ids[0], list(a1)], [ids[1], list(a2)], [ids[2], list(b1)], [ids[3], list(b2)]]
        m["edges"] += [[ids[0], ids[1]], [ids[2], ids[3]]]
        m["edges"] += [[rng.choice(base_labs), ids[0]], [ids[3], rng.choice(base_labs)]]
        pairs.append((a1, a2, b1, b2))
    a1, a2, b1, b2 = pairs[0]
    tr = []
    for t, (q1, q2) in ((0.15, (a1, a2)), (0.45, (a1, a2)), (0.6, (b1, b2)), (0.9, (b1, b2))):
        tr.append([q1[0] + t * (q2[0] - q1[0]) + rng.gauss(0, 2.0), q1[1] + t * (q2[1] - q1[1]) + rng.gauss(0, 2.0)])
    cfg = gen.gen_cfg(rng, families=("simple", "distance"), ne=False, width=False, agb=False, cut=False)
    for k in ("obs_noise", "obs_noise_ne", "dist_noise", "dist_noise_ne"):
        if cfg.get(k) is not None:
            cfg[k] = cfg[k] * SCALE
    lat = rng.choice([rng.uniform(-60, 60), rng.uniform(50, 60), -rng.uniform(50, 60)])
    return {"map": m, "trace": tr, "cfg": cfg, "center": [lat, rng.uniform(-180, 180)], "links": D, "cls": "parallel_links"}


def _link_sets(sm, edges, succ):
    out = {}
    for e in edges:
        out[e] = sorted((a, b) for a, _, b, _ in sm.edges_nbrto(e) if (a, b) not in succ[e])
    return out


def check_links(ctx, case):
    """parallel roads linked in both metrics: same links, same match."""
    m = case["map"]
    D = case["links"]
    pc = place(case)
    es = [tuple(e) for e in m["edges"]]
    succ = {e: {f for f in es if f[0] == e[1]} for e in es}
    smp = build.make_sqlite(m, ctx.scratch)
    sml = build.make_sqlite(pc["map"], ctx.scratch)
    try:
        smp.connect_parallelroads(dist=D)
        sml.connect_parallelroads(dist=D)
        ctx.evaluated(2)
        ctx.count("linked_map_pairs")
        lp, ll = _link_sets(smp, es, succ), _link_sets(sml, es, succ)
        if any(lp.values()):
            ctx.count("linked_map_pairs_with_links")
            ctx.nontriv(case)
        cd = gen.coords(m)
        wit = {"planar": {"map": m, "trace": case["trace"], "cfg": case["cfg"], "links": D, "cls": "parallel_links"}, "latlon": pc, "center": case["center"]}
        for e in es:
            if lp[e] != ll[e]:
                f = sorted(set(lp[e]) ^ set(ll[e]))[0]
                a, b, c, d = cd[e[0]], cd[e[1]], cd[f[0]], cd[f[1]]
                def slope(p, q):
                    x, y = p[0] - q[0], p[1] - q[1]
                    return 0.0 if x == 0 else math.atan(abs(y / x))
                dang = abs(abs(slope(a, b) - slope(c, d)) - math.pi / 180)
                dist = rg.pl_segseg(a, b, c, d)
                gaps = []
                for ax in (0, 1):
                    lo1, hi1 = min(a[ax], b[ax]), max(a[ax], b[ax])
                    lo2, hi2 = min(c[ax], d[ax]), max(c[ax], d[ax])
                    gaps += [abs(lo2 - hi1), abs(lo1 - hi2)]
                # candidate pairs come from an R-tree box query; the index stores float32 rounded outwards, which at degree
                # coordinates widens a box by up to ~1.7 m per side: bounding boxes closer than 4 m to touching are borderline
                if dang < math.radians(0.05) or abs(dist - D) < 1.0 or min(gaps) < 4.0:
                    ctx.count("skipped_borderline_link")
                    return
                ctx.violation("C15:parallel-road-links-differ", wit,
                              f"connect_parallelroads({D}): road {e} is linked to {lp[e]} on the planar map and to {ll[e]} on the lat-lon map "
                              f"(roads {e} and {f} are {dist:.2f} m apart)")
                return
        res = []
        for sm_, tr_ in ((smp, case["trace"]), (sml, pc["trace"])):
            mt = build.make_matcher(sm_, case["cfg"])
            res.append(build.canon(mt, mt.match(build.trace(tr_))))
        c0, c1 = res
        if any(isinstance(k, list) and len(k) >= 4 for k, _ in c0.get("path") or []):
            pass
        if c0["empty"] != c1["empty"] or c0["idx"] != c1["idx"]:
            ctx.violation(f"C15:index-differs:{case['cfg']['family']}:linked-roads", wit, f"planar idx {c0['idx']}; lat-lon idx {c1['idx']}")
        elif not c0["empty"] and not abs(c0["best"] - c1["best"]) <= 1e-2 * max(1.0, abs(c0["best"])):
            ctx.violation(f"C15:best-probability-differs:{case['cfg']['family']}:linked-roads", wit, f"planar {c0['best']!r}, lat-lon {c1['best']!r}")
    finally:
        build.close_sqlite(smp)
        build.close_sqlite(sml)


def gen_case(rng, i, tier):
    if i % 12 == 5:
        return gen_links_case(rng)
    case = mcase.gen_mcase(rng, ne=False, width=False, agb=(rng.random() < 0.3), tighten_p=0.0, cut=False, sparse_p=0.0, max_obs=9,
                           kinds=("random", "grid", "chain"), labels=("int", "str"), hostile=(rng.random() < 0.3))
    m = gen.transform_map(case["map"], SCALE)
    m["kind"] = case["map"]["kind"]
    case["map"] = m
    case["trace"] = gen.transform_trace(case["trace"], SCALE)
    cfg = case["cfg"]
    for k in ("obs_noise", "obs_noise_ne", "dist_noise", "dist_noise_ne"):
        if cfg.get(k) is not None:
            cfg[k] = cfg[k] * SCALE
    lat = rng.choice([rng.uniform(-60, 60), rng.uniform(50, 60), -rng.uniform(50, 60), rng.uniform(-5, 5)])
    case["center"] = [lat, rng.uniform(-180, 180)]
    if rng.random() < 0.08:
        # "any longitude": the map straddles the antimeridian (node longitudes on both sides of +-180)
        case["center"] = [lat, rng.choice([-180.0, 180.0, 179.9995, -179.9992, rng.uniform(179.997, 180.0), -rng.uniform(179.997, 180.0)])]
        case["antimeridian"] = True
    if build.sqlite_ok(case["map"]) and rng.random() < 0.3:
        # both siblings on SqliteMap (all three state families: coordinates and candidates come out of the database)
        case["sqlite"] = True
    if rng.random() < 0.12:
        case["late_metric"] = True
    return case


def place(case):
    m = dict(case["map"])
    labs = [l for l, _ in m["nodes"]]
    ll = rg.ae_place(case["center"], [(p[0], p[1]) for _, p in m["nodes"]])
    m["nodes"] = [[l, [q[0], q[1]]] for l, q in zip(labs, ll)]
    m["latlon"] = True
    tl = rg.ae_place(case["center"], [(p[0], p[1]) for p in case["trace"]])
    return {"map": m, "trace": [[q[0], q[1]] for q in tl], "cfg": case["cfg"], "late_metric": bool(case.get("late_metric"))}


def run(case):
    if case.get("late_metric") and case["map"].get("latlon"):
        # the metric of the map is selected AFTER the matcher object was created (use_latlon is a settable property)
        mp = build.make_inmem({**case["map"], "latlon": False})
        mt = build.make_matcher(mp, case["cfg"])
        mp.use_latlon = True
    else:
        mt = build.make_matcher(build.make_inmem(case["map"]), case["cfg"])
    r = mt.match(build.trace(case["trace"]))
    return mt, build.canon(mt, r)


def check_case(ctx, case):
    if case.get("cls") == "parallel_links":
        return check_links(ctx, case)
    if case.get("sqlite"):
        ctx.count("sqlite_pairs")
    if case.get("late_metric"):
        ctx.count("metric_selected_after_matcher_creation")
    with build.sqlite_backend(bool(case.get("sqlite")), ctx.scratch):
        return _check_case(ctx, case)


def _check_case(ctx, case):
    fam = case["cfg"]["family"]
    try:
        mt0, c0 = run(case)
    except Exception:
        ctx.count("planar_raised")
        return
    if fam == "simple_nodes":
        # borderline: an observation projecting (almost) on an edge end
        for col in mt0.lattice.values():
            for e in col.values(0):
                if e.edge_m.p2 is not None and e.edge_m.ti is not None and (abs(e.edge_m.ti) < 1e-6 or abs(e.edge_m.ti - 1) < 1e-6):
                    ctx.count("skipped_borderline_edge_end")
                    return
        cd = gen.coords(case["map"])
        for p in case["trace"]:
            for a, b in gen.real_edges(case["map"]):
                A, B = cd[a], cd[b]
                L2 = (B[0] - A[0]) ** 2 + (B[1] - A[1]) ** 2
                if L2 == 0:
                    continue
                u = ((p[0] - A[0]) * (B[0] - A[0]) + (p[1] - A[1]) * (B[1] - A[1])) / L2  # unclamped foot of the perpendicular
                L = math.sqrt(L2)
                if abs(u) * L < 0.5 or abs(1 - u) * L < 0.5:
                    ctx.count("skipped_borderline_edge_end")
                    return
    if case["cfg"]["agb"]:
        # the going-back-on-the-same-edge penalty compares the relative positions of two consecutive observations with '<':
        # borderline when they (almost) coincide without both being clamped to the same end
        cd = gen.coords(case["map"])
        tr = case["trace"]
        for a, b in gen.real_edges(case["map"]):
            A, B = cd[a], cd[b]
            L2 = (B[0] - A[0]) ** 2 + (B[1] - A[1]) ** 2
            if L2 == 0:
                continue
            L = math.sqrt(L2)
            us = [((p[0] - A[0]) * (B[0] - A[0]) + (p[1] - A[1]) * (B[1] - A[1])) / L2 for p in tr]
            for u0, u1 in zip(us, us[1:]):
                t0, t1 = min(1.0, max(0.0, u0)), min(1.0, max(0.0, u1))
                both_clamped_same = (u0 <= 0 and u1 <= 0) or (u0 >= 1 and u1 >= 1)
                near_end = min(abs(u0), abs(1 - u0), abs(u1), abs(1 - u1)) * L < 0.5
                if (abs(t0 - t1) * L < 0.5 and not both_clamped_same) or (near_end and abs(t0 - t1) * L < 0.5):
                    ctx.count("skipped_borderline_equal_relative_position")
                    return
    pc = place(case)
    try:
        mt1, c1 = run(pc)
    except Exception as e:
        ctx.violation(f"C15:latlon-run-raises-{type(e).__name__}:{fam}", {"planar": case, "latlon": pc}, repr(e))
        return
    ctx.evaluated(2)
    ctx.count("pairs_compared")
    ctx.count(f"family:{fam}")
    if case["center"][0] < 0:
        ctx.count("southern_hemisphere")
    if abs(case["center"][0]) > 50:
        ctx.count("high_latitude")
    if case.get("antimeridian"):
        lons = [p[1] for _, p in pc["map"]["nodes"]] + [p[1] for p in pc["trace"]]
        if min(lons) < -179 and max(lons) > 179:
            ctx.count("straddles_antimeridian")
    n = len(case["trace"])
    if mt0.lattice and n >= 3:
        avg = sum(len([x for x in col.values(0) if not x.stop]) for col in mt0.lattice.values()) / max(1, len(mt0.lattice))
        if avg >= 2:
            ctx.nontriv(case)
    wit = {"planar": {"map": case["map"], "trace": case["trace"], "cfg": case["cfg"]}, "latlon": pc, "center": case["center"], "sqlite": bool(case.get("sqlite"))}
    order = "second-order" if case["cfg"]["agb"] else "first-order"
    if c0["empty"] != c1["empty"] or c0["idx"] != c1["idx"]:
        ctx.violation(f"C15:index-differs:{fam}:{order}", wit, f"planar idx {c0['idx']} empty {c0['empty']}; lat-lon idx {c1['idx']} empty {c1['empty']}")
        return
    if c0["empty"]:
        return
    if c0["idx"] == n - 1:
        ctx.count("complete_matches_compared")
    err = abs(c0["best"] - c1["best"])
    ctx.state["worst"] = max(ctx.state.get("worst", 0.0), err / max(1.0, abs(c0["best"])))
    if not err <= 1e-2 * max(1.0, abs(c0["best"])):
        ctx.violation(f"C15:best-probability-differs:{fam}:{order}", wit, f"planar {c0['best']!r}, lat-lon {c1['best']!r} at {case['center']}")
    ctx.sample(wit)


def shard_teardown(ctx):
    ctx.count("worst_relative_probability_error_x1e9", int(ctx.state.get("worst", 0.0) * 1e9))


def replay_case(ctx, wit):
    if "planar" in wit:
        case = dict(wit["planar"])
        case["center"] = wit["center"]
        if wit.get("sqlite"):
            case["sqlite"] = True
        if (wit.get("latlon") or {}).get("late_metric"):
            case["late_metric"] = True
        case.setdefault("cls", wit["planar"].get("cls"))
        return check_case(ctx, case)
    return check_case(ctx, wit)


# no result depends on the log level: a tenth of the cases runs with the package logger at DEBUG (replayable: the flag is
# part of the case / of the recorded witness)
_dbg_gen, _dbg_chk = env.debug_dimension(0.1)
gen_case = _dbg_gen(gen_case)
check_case = _dbg_chk(check_case)

TECHNIQUE = "runtime monitoring: differential monitor over sibling executions (planar metres vs the same case placed on the sphere by a reference azimuthal-equidistant mapping)"
LEVEL_TEXT = ("{Q} (quick) / {T} (thorough) street-scale cases matched in both metrics; the matched index must be equal and the best log-probability "
              "must agree within 1e-2*max(1,|x|). Held-on-observed.")
LEVEL_NOTE = "Trusted: the reference placement (distortion ~6e-9 at 500 m). Emitting-only, no cut-offs, as the property states."
