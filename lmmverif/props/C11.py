"""C11 Spatial queries return exactly what lies within the radius.

Monitor shape: history + executable reference model.  Every `nodes_closeto` / `edges_closeto`
call on a generated map (both backends, both metrics, three coordinate magnitudes) is judged
against a full scan of a dict-of-sets map model with the reference geometry.  Violation
signatures name the mechanism by which an item was lost or wrongly included, computed from the
witness (e.g. "start node outside the search box"), so that one recorded finding cannot hide
another defect of the same query.
"""
import math
import struct

from .. import env  # noqa: F401
from .. import gen, build, refgeo as rg
from ..mapmodel import MapModel

ID = "C11"
CASES = {"quick": 6000, "thorough": 120000}
MIN_CASES_PER_SHARD = 50
CASE_TIMEOUT = 30
RULE = ("one case = one generated map (3..12 nodes; magnitudes: unit scale, 2^-10..2^-17 of it, projected metres ~1e7, degrees; classes: random, "
        "dyadic grid, a node millimetres inside a 2-50 km disc at its extreme-longitude point at high latitude, long edges crossing the disc, items within one float32 ulp of the search-box border, items exactly at "
        "the radius) loaded in InMemMap and SqliteMap, optionally with labels added a second time, 20 % with the package logger at DEBUG, 30 % of the SQLite maps in a reused database file that held another map with the same labels, with 4 query points x radii (incl. infinite) x max_elmt; every "
        "nodes_closeto/edges_closeto answer is compared with the model's full scan. Non-trivial = the true answer is neither "
        "empty nor everything; distinct = hash of (map, query)")
ANCHORS = [("leuvenmapmatching/map/inmem.py", "InMemMap.nodes_closeto"),
           ("leuvenmapmatching/map/inmem.py", "InMemMap.edges_closeto"),
           ("leuvenmapmatching/map/inmem.py", "InMemMap._items_in_bb"),
           ("leuvenmapmatching/map/sqlite.py", "SqliteMap.nodes_closeto"),
           ("leuvenmapmatching/map/sqlite.py", "SqliteMap.edges_closeto"),
           ("leuvenmapmatching/map/sqlite.py", "SqliteMap.all_nodes"),
           ("leuvenmapmatching/map/sqlite.py", "SqliteMap.all_edges")]
CELLS = [f"{b}:{q}:{m}" for b in ("inmem", "sqlite") for q in ("nodes", "edges") for m in ("unit", "big", "latlon", "tiny")]
FLOORS = {f"cell:{c}": 300 for c in CELLS}
FLOORS.update({"class:tangent": 40, "class:long_edge": 100, "class:border32": 100, "class:at_radius": 100, "class:infinite": 100, "class:big_grid": 10,
               "debug_level_maps": 500, "reused_database_files": 800, "reused_database_files_single_inserts": 200, "queries_judged": 8000, "truncations_judged": 1500, "long_edge_through_disc": 60,
               "item_exactly_at_radius": 40, "item_within_ulp32_of_box_border": 60})
ASSUMPTIONS = ["membership is not judged for items whose reference distance is within 1e-9*r (planar; exactly-equal is judged by "
               "rational arithmetic) / 1 mm (lat-lon nodes) / 0.25 m (lat-lon edges) of the radius",
               "InMemMap without R-tree index (rtree is not installed)"]


def _f32(x):
    return struct.unpack("f", struct.pack("f", x))[0]


def f32_out(x, up):
    """x rounded to float32 outwards exactly as SQLite's R-tree does (rtreeValueUp / rtreeValueDown)."""
    f = _f32(x)
    if up and f < x:
        f = _f32(x * ((1.0 - 1.0 / 8388608.0) if x < 0 else (1.0 + 1.0 / 8388608.0)))
    if not up and f > x:
        f = _f32(x * ((1.0 + 1.0 / 8388608.0) if x < 0 else (1.0 - 1.0 / 8388608.0)))
    return f


def gen_big_case(rng):
    """a map with thousands of roads (bounds on the number of rows a query reads bite here): n x n grid, 2n(n-1) two-way
    streets, queries whose disc contains more than a thousand of them."""
    n = rng.randint(24, 34)
    step = rng.choice([1.0, 10.0])
    nodes = [[r * n + c, [r * step + rng.uniform(-0.2, 0.2) * step, c * step + rng.uniform(-0.2, 0.2) * step]] for r in range(n) for c in range(n)]
    edges = []
    for r in range(n):
        for c in range(n):
            if c + 1 < n:
                edges += [[r * n + c, r * n + c + 1], [r * n + c + 1, r * n + c]]
            if r + 1 < n:
                edges += [[r * n + c, (r + 1) * n + c], [(r + 1) * n + c, r * n + c]]
    ctr = (n / 2 * step + rng.uniform(-1, 1) * step, n / 2 * step + rng.uniform(-1, 1) * step)
    queries = [{"loc": list(ctr), "r": rng.choice([n * step * 0.45, n * step * 0.7, math.inf]), "k": rng.choice([None, 5]), "cls": "plain"},
               {"loc": [ctr[0] + 3 * step, ctr[1] - 2 * step], "r": 1.5 * step, "k": None, "cls": "plain"}]
    m = {"nodes": nodes, "edges": edges, "latlon": False, "kind": "big_grid"}
    return {"map": m, "mag": "unit", "cls": "big_grid", "queries": queries, "bulk": True, "dups": [], "debug": False, "prior": None}


def gen_case(rng, i, tier):
    if i % 300 == 123:
        return gen_big_case(rng)
    mag = ["unit", "big", "latlon", "unit", "big", "latlon", "tiny"][i % 7]
    cls = rng.choice(["random", "random", "grid", "long_edge", "border32", "at_radius"])
    n = rng.randint(3, 12)
    if mag == "tiny":
        # small coordinate units (degrees / kilometres used as planar y-x): unit scale times 2^-k, exactly
        sc = 2.0 ** -rng.choice([10, 14, 17])
        base, spread, rs = (0.0, 0.0), 10.0 * sc, [0.5 * sc, 1.0 * sc, 2.0 * sc, 5.0 * sc, 20.0 * sc]
    elif mag == "unit":
        base, spread, rs = (0.0, 0.0), 10.0, [0.5, 1.0, 2.0, 5.0, 20.0]
    elif mag == "big":
        base, spread, rs = (5e6 + rng.randint(0, 10 ** 6), 1e7 + rng.randint(0, 10 ** 6)), 300.0, [10.0, 50.0, 150.0, 1000.0]
    else:
        base, spread, rs = (rng.uniform(-60, 60), rng.uniform(-170, 170)), 300.0, [10.0, 50.0, 150.0, 1000.0]
    # local metre (or unit) coordinates first
    if cls in ("grid", "at_radius"):
        step = spread / 8
        pts = []
        while len(pts) < n:
            p = (rng.randint(0, 8) * step, rng.randint(0, 8) * step)
            if p not in pts:
                pts.append(p)
    else:
        pts = [(rng.uniform(0, spread), rng.uniform(0, spread)) for _ in range(n)]
    edges = []
    for _ in range(2 * n):
        a, b = rng.sample(range(n), 2)
        if (a, b) not in edges:
            edges.append((a, b))
    queries = []
    for _ in range(4):
        c = rng.choice(pts)
        mode = rng.choice(["near", "on_node", "on_edge", "far"])
        r = rng.choice(rs)
        if mode == "near":
            loc = (c[0] + rng.uniform(-1, 1) * rs[1], c[1] + rng.uniform(-1, 1) * rs[1])
        elif mode == "on_node":
            loc = c
        elif mode == "on_edge" and edges:
            a, b = rng.choice(edges)
            t = rng.choice([0.25, 0.5, 0.75])
            loc = (pts[a][0] + t * (pts[b][0] - pts[a][0]), pts[a][1] + t * (pts[b][1] - pts[a][1]))
        else:
            loc = (rng.uniform(-spread, 2 * spread), rng.uniform(-spread, 2 * spread))
        queries.append({"loc": list(loc), "r": r, "k": rng.choice([None, 1, 2, 3, 5]), "cls": "plain"})
    if cls == "long_edge":
        # an edge whose end points are both far outside the disc but which passes through it
        q = queries[0]
        loc, r = q["loc"], q["r"]
        ang = rng.uniform(0, 2 * math.pi)
        off = rng.uniform(0, 0.9) * r
        cx, cy = loc[0] + off * math.cos(ang + math.pi / 2), loc[1] + off * math.sin(ang + math.pi / 2)
        L1, L2 = rng.uniform(1.5, 6) * r, rng.uniform(1.5, 6) * r
        pa = (cx + L1 * math.cos(ang), cy + L1 * math.sin(ang))
        pb = (cx - L2 * math.cos(ang), cy - L2 * math.sin(ang))
        pts += [pa, pb]
        edges.append((len(pts) - 2, len(pts) - 1))
        if rng.random() < 0.5:
            edges.append((len(pts) - 1, len(pts) - 2))
        q["cls"] = "long_edge"
    if cls == "at_radius":
        q = queries[0]
        c = rng.choice(pts)
        step = spread / 8
        k = rng.choice([1, 2, 3])
        q["loc"] = [c[0] + k * step, c[1]] if rng.random() < 0.5 else [c[0] + 3 * k * step / 4 * 0 + 0.0, c[1] - k * step]
        q["r"] = k * step
        q["cls"] = "at_radius"
    if cls == "border32":
        # a node just inside the disc on an axis, within the float32 rounding of the box border
        q = queries[0]
        loc, r = q["loc"], q["r"]
        delta = r * 10 ** rng.uniform(-6, -3.5)
        axis = rng.choice([(1, 0), (-1, 0), (0, 1), (0, -1)])
        pts.append((loc[0] + axis[0] * (r - delta), loc[1] + axis[1] * (r - delta)))
        a = rng.randrange(len(pts) - 1)
        edges.append((a, len(pts) - 1))
        edges.append((len(pts) - 1, a))
        q["cls"] = "border32"
    if rng.random() < 0.25:
        queries.append({"loc": list(rng.choice(pts)), "r": math.inf, "k": rng.choice([None, 2]), "cls": "infinite"})
    tangent = None
    if mag == "latlon" and rng.random() < 0.2:
        # a node a few millimetres inside a LARGE disc at the bearing where the disc reaches its extreme longitude, at high
        # latitude: a search box whose east-west half-width is the flat approximation d/cos(lat) loses it
        base = (rng.choice([-1, 1]) * rng.uniform(55, 72), base[1])
        tangent = {"r": rng.choice([2000.0, 5000.0, 20000.0, 50000.0]), "side": rng.choice([1, -1]), "inset": rng.choice([0.003, 0.01, 0.05])}
    # place
    if mag == "latlon":
        ll = rg.ae_place(base, pts)
        nodes = [[j, [ll[j][0], ll[j][1]]] for j in range(len(pts))]
        for q in queries:
            q["loc"] = list(rg.ae_place(base, [q["loc"]])[0])
        if tangent:
            loc = tuple(queries[0]["loc"])
            r = tangent["r"]
            rr = r - tangent["inset"]
            # bearing of the extreme longitude, found numerically with the reference geometry
            best = None
            for k in range(-400, 401):
                bg = 90.0 * tangent["side"] + k * 0.01
                q = rg.gc_dest(loc, bg, rr)
                off = (q[1] - loc[1]) * tangent["side"]
                if best is None or off > best[0]:
                    best = (off, q)
            j = len(nodes)
            nodes.append([j, [best[1][0], best[1][1]]])
            edges.append((0, j))
            edges.append((j, 0))
            queries[0]["r"] = r
            queries[0]["cls"] = "tangent"
            cls = "tangent"
    else:
        nodes = [[j, [base[0] + p[0], base[1] + p[1]]] for j, p in enumerate(pts)]
        for q in queries:
            q["loc"] = [base[0] + q["loc"][0], base[1] + q["loc"][1]]
    if rng.random() < 0.3:
        rng.shuffle(nodes)
    m = {"nodes": nodes, "edges": [[a, b] for a, b in edges], "latlon": mag == "latlon", "kind": cls}
    dups = []
    if rng.random() < 0.25:
        # a label added again (same or other coordinates): both backends keep the first location
        for l, p0 in rng.sample(nodes, min(len(nodes), 2)):
            shift = 0.0 if rng.random() < 0.4 else (rs[1] * rng.choice([1.5, -2.0]) if mag != "latlon" else 0.001)
            dups.append([l, [p0[0] + shift, p0[1] - shift]])
    return {"map": m, "mag": mag, "cls": cls, "queries": queries, "bulk": rng.random() < 0.7, "dups": dups,
            "debug": rng.random() < 0.2, "prior": build.prior_spec(rng) if rng.random() < 0.3 else None}


def _outside(box, p):
    yb, xl, yt, xr = box
    return not (yb <= p[0] <= yt and xl <= p[1] <= xr)


def _reason_node(backend, mp, model, loc, r, label):
    p = model.coords[label]
    try:
        box = mp.box_around_point((loc[0], loc[1]), r)
    except Exception:
        return "box-raises"
    if _outside(box, p):
        return "inside-disc-but-outside-box_around_point"
    if backend == "sqlite":
        yb, xl, yt, xr = box
        if (f32_out(p[0], True) > yt or f32_out(p[0], False) < yb or f32_out(p[1], True) > xr or f32_out(p[1], False) < xl):
            return "index-rectangle-rounded-across-box-border"
    return "other"


def _reason_edge(backend, mp, model, loc, r, e):
    a, b = model.coords[e[0]], model.coords[e[1]]
    try:
        box = mp.box_around_point((loc[0], loc[1]), r)
    except Exception:
        return "box-raises"
    yb, xl, yt, xr = box
    bbox_disjoint = (max(a[0], b[0]) < yb or min(a[0], b[0]) > yt or max(a[1], b[1]) < xl or min(a[1], b[1]) > xr)
    if bbox_disjoint:
        return "inside-disc-but-outside-box_around_point"
    if backend == "inmem" and _outside(box, a):
        return "edge-start-node-outside-search-box"
    return "other"


def judge_nodes(ctx, case, backend, mp, model, q, res_full):
    loc, r = tuple(q["loc"]), q["r"]
    must, dc, mustnot = model.nodes_within(loc, r)
    got = {}
    for item in res_full:
        d, l, p = item
        if l in got:
            ctx.violation(f"C11:{backend}:nodes_closeto:duplicate", case, f"node {l} returned twice")
        got[l] = (d, p)
    for l, dref in must.items():
        if l not in got:
            why = _reason_node(backend, mp, model, loc, r, l)
            if why == "index-rectangle-rounded-across-box-border":
                pass
            ctx.violation(f"C11:{backend}:nodes_closeto:missing:{why}", case,
                          f"[{case['mag']}] node {l} at {model.coords[l]} is {dref} < {r} from {loc} but not returned")
    for l, (d, p) in got.items():
        if l in mustnot:
            at = "exactly-at-radius" if (not model.latlon and not math.isinf(r) and model.exact_cmp_node(loc, l, r) == 0) else "beyond-radius"
            ctx.violation(f"C11:{backend}:nodes_closeto:extra:{at}", case,
                          f"[{case['mag']}] node {l} at distance {mustnot[l]} returned for radius {r}")
            continue
        dref = must.get(l, dc.get(l))
        if dref is None:
            ctx.violation(f"C11:{backend}:nodes_closeto:unknown-node", case, f"{l}")
            continue
        if not abs(d - dref) <= model.tol_node(loc, dref):
            ctx.violation(f"C11:{backend}:nodes_closeto:wrong-distance", case, f"node {l}: {d} vs reference {dref}")
        if tuple(p) != tuple(model.coords[l]):
            ctx.violation(f"C11:{backend}:nodes_closeto:wrong-coordinates", case, f"node {l}: {p} vs {model.coords[l]}")
    ds = [it[0] for it in res_full]
    if any(b < a for a, b in zip(ds, ds[1:])):
        ctx.violation(f"C11:{backend}:nodes_closeto:not-sorted", case, f"{ds}")
    return must, dc, mustnot


def judge_edges(ctx, case, backend, mp, model, q, res_full):
    loc, r = tuple(q["loc"]), q["r"]
    must, dc, mustnot = model.edges_within(loc, r)
    got = {}
    for item in res_full:
        d, l1, p1, l2, p2, pi, ti = item
        e = (l1, l2)
        if e in got:
            ctx.violation(f"C11:{backend}:edges_closeto:duplicate", case, f"edge {e} returned twice")
        got[e] = item
    for e, (dref, tref, qref) in must.items():
        if e not in got:
            why = _reason_edge(backend, mp, model, loc, r, e)
            a, b = model.coords[e[0]], model.coords[e[1]]
            if min(model.dist(loc, a), model.dist(loc, b)) > r:
                ctx.count("long_edge_missing")
            ctx.violation(f"C11:{backend}:edges_closeto:missing:{why}", case,
                          f"[{case['mag']}] edge {e} {a}-{b} is {dref} < {r} from {loc} but not returned")
    for e, item in got.items():
        d, l1, p1, l2, p2, pi, ti = item
        if e not in model.edgeset:
            ctx.violation(f"C11:{backend}:edges_closeto:not-an-edge-of-the-map", case, f"{e}")
            continue
        if e in mustnot:
            at = "exactly-at-radius" if (not model.latlon and not math.isinf(r) and model.exact_cmp_edge(loc, e, r) == 0) else "beyond-radius"
            ctx.violation(f"C11:{backend}:edges_closeto:extra:{at}", case,
                          f"[{case['mag']}] edge {e} at distance {mustnot[e][0]} returned for radius {r}")
            continue
        dref, tref, qref = must.get(e) or dc.get(e)
        tol = model.tol_edge(loc, e, dref)
        a, b = model.coords[e[0]], model.coords[e[1]]
        if tuple(p1) != tuple(a) or tuple(p2) != tuple(b):
            ctx.violation(f"C11:{backend}:edges_closeto:wrong-coordinates", case, f"edge {e}: {p1}-{p2} vs {a}-{b}")
        if not abs(d - dref) <= tol:
            ctx.violation(f"C11:{backend}:edges_closeto:wrong-distance", case, f"edge {e}: {d} vs reference {dref} (tol {tol})")
        L = model.dist(a, b)
        if not model.dist(pi, qref) <= tol:
            ctx.violation(f"C11:{backend}:edges_closeto:wrong-projection-point", case, f"edge {e}: {pi} vs reference {qref}")
        if L > 0 and not abs(ti - tref) * L <= tol:
            ctx.violation(f"C11:{backend}:edges_closeto:wrong-relative-position", case, f"edge {e}: t={ti} vs reference {tref}")
    ds = [it[0] for it in res_full]
    if any(b < a for a, b in zip(ds, ds[1:])):
        ctx.violation(f"C11:{backend}:edges_closeto:not-sorted", case, f"{ds}")
    return must, dc, mustnot


def check_case(ctx, case):
    # what lies within the radius does not depend on the log level: a fifth of the maps is built and queried at DEBUG
    if case.get("debug"):
        ctx.count("debug_level_maps")
    with env.debug_level(bool(case.get("debug"))):
        _check_case(ctx, case)


def _check_case(ctx, case):
    m = case["map"]
    model = MapModel(m)
    im = build.make_inmem(m)
    # 30 %: the database file is reused (an earlier map with the same labels at other places, parallel roads linked, lived in it)
    sm = build.make_sqlite(m, ctx.scratch, bulk=case.get("bulk", True), prior=case.get("prior"))
    if case.get("prior"):
        ctx.count("reused_database_files")
        if not case.get("bulk", True):
            ctx.count("reused_database_files_single_inserts")
    ctx.count(f"class:{case['cls']}")
    try:
        for l, loc in case.get("dups", []):
            ctx.count("repeated_node_adds")
            im.add_node(l, (loc[0], loc[1]))
            sm.add_node(l, (loc[0], loc[1]), ignore_doubles=True)
        for q in case["queries"]:
            loc, r, k = tuple(q["loc"]), q["r"], q["k"]
            if q["cls"] == "infinite":
                ctx.count("class:infinite")
            for backend, mp in (("inmem", im), ("sqlite", sm)):
                for kind in ("nodes", "edges"):
                    fn = mp.nodes_closeto if kind == "nodes" else mp.edges_closeto
                    ctx.evaluated()
                    ctx.count("queries_judged")
                    ctx.count(f"cell:{backend}:{kind}:{case['mag']}")
                    try:
                        full = fn(loc, max_dist=r)
                    except Exception as e:
                        ctx.violation(f"C11:{backend}:{kind}_closeto:raises-{type(e).__name__}", case, f"{e!r} for {q}")
                        continue
                    if kind == "nodes":
                        must, dc, mustnot = judge_nodes(ctx, case, backend, mp, model, q, full)
                    else:
                        must, dc, mustnot = judge_edges(ctx, case, backend, mp, model, q, full)
                        if backend == "inmem":
                            for e in must:
                                a, b = model.coords[e[0]], model.coords[e[1]]
                                if not math.isinf(r) and min(model.dist(loc, a), model.dist(loc, b)) > r:
                                    ctx.count("long_edge_through_disc")
                    if backend == "inmem" and not math.isinf(r):
                        if kind == "nodes":
                            for l in mustnot:
                                if not model.latlon and model.exact_cmp_node(loc, l, r) == 0:
                                    ctx.count("item_exactly_at_radius")
                            try:
                                yb, xl, yt, xr = sm.box_around_point((loc[0], loc[1]), r)
                                for l in must:
                                    p = model.coords[l]
                                    if (f32_out(p[0], True) > yt or f32_out(p[0], False) < yb
                                            or f32_out(p[1], True) > xr or f32_out(p[1], False) < xl):
                                        ctx.count("item_within_ulp32_of_box_border")
                            except Exception:
                                pass
                        else:
                            for e in mustnot:
                                if not model.latlon and model.exact_cmp_edge(loc, e, r) == 0:
                                    ctx.count("item_exactly_at_radius")
                    if must and mustnot:
                        ctx.nontriv([m["nodes"], m["edges"], q["loc"], r, kind])
                    if k is not None:
                        ctx.count("truncations_judged")
                        try:
                            tr = fn(loc, max_dist=r, max_elmt=k)
                        except Exception as e:
                            ctx.violation(f"C11:{backend}:{kind}_closeto:raises-{type(e).__name__}", case, f"{e!r} with max_elmt")
                            continue
                        if list(tr) != list(full[:k]):
                            ctx.violation(f"C11:{backend}:{kind}_closeto:truncation-not-prefix-of-sorted-answer", case,
                                          f"max_elmt={k}: {tr} vs {full[:k]}")
        ctx.sample({"map": m, "queries": case["queries"][:2]})
    finally:
        build.close_sqlite(sm)


TECHNIQUE = "runtime monitoring: reference-model oracle (dict-of-sets map model, full scan with reference geometry) over generated spatial queries on both backends"
LEVEL_TEXT = ("{Q} (quick) / {T} (thorough) generated maps x ~4.5 queries x 2 backends x 2 query kinds, in unit-scale, 1e7-metre and degree "
              "magnitudes, with hostile classes (long edges through the disc, float32 index rounding at the box border, items exactly at "
              "the radius, infinite radius); every answer is compared item by item with a full scan using exact/vector geometry. "
              "Held-on-observed; recorded defects are matched by mechanism signature.")
LEVEL_NOTE = ("Trusted: reference geometry, sqlite3. InMemMap is exercised without an R-tree (rtree not installed). Items within the stated "
              "band around the radius are not judged.")
