"""C13 Planar geometry primitives are exact.

Monitor shape: history + executable reference model.  Every call of the real primitives
(`project`, `distance_point_to_segment`, `distance_segment_to_segment`, `box_around_point`,
`distance`) on a generated hostile configuration is judged by the exact-rational reference
(refgeo).  Part B wraps the same contracts around the module functions while real matchers run,
so that the argument tuples the matcher itself produces are judged too.
"""
import math
from fractions import Fraction as F

from .. import env  # noqa: F401
from .. import refgeo as rg
from leuvenmapmatching.util import dist_euclidean as de

ID = "C13"
CASE_TIMEOUT = 30
CASES = {"quick": 100000, "thorough": 2000000}
MIN_CASES_PER_SHARD = 500
CASE_TIMEOUT = 10
RULE = ("one case = one generated planar configuration (4 points for segment/segment, 3 for "
        "point/segment, point+radius for the box) from a named hostile class at a random dyadic scale "
        "2^-10..2^24 and offset up to 1e7; judged against exact rational arithmetic. Non-trivial = the "
        "configuration is not in general position (zero-length, parallel, collinear, touching, crossing, "
        "T-junction, shared end point, clamped projection, near-parallel) ; distinct = distinct hash of "
        "the coordinates")
ANCHORS = [("leuvenmapmatching/util/dist_euclidean.py", "distance_point_to_segment"),
           ("leuvenmapmatching/util/dist_euclidean.py", "distance_segment_to_segment"),
           ("leuvenmapmatching/util/dist_euclidean.py", "project"),
           ("leuvenmapmatching/util/dist_euclidean.py", "box_around_point")]
SEG_CLASSES = ["general", "zero_f", "zero_t", "zero_both", "parallel", "collinear_overlap", "collinear_disjoint",
               "collinear_touch", "crossing", "t_junction", "shared_endpoint", "near_parallel", "grid", "half"]
PT_CLASSES = ["interior", "before", "beyond", "on_segment", "at_endpoint", "zero_length", "grid"]
FLOORS = {f"segseg_class:{c}": 200 for c in SEG_CLASSES}
FLOORS.update({f"ptseg_class:{c}": 150 for c in PT_CLASSES})
FLOORS.update({"box_checks": 500, "segseg_judged": 8000, "ptseg_judged": 4000, "matcher_runs_under_contracts": 500,
               "segseg_judged_in_matcher": 20000, "ptseg_judged_in_matcher": 20000})
ASSUMPTIONS = ["float tolerance 1e-6*E + 64*eps*M (E = extent of the configuration, M = largest coordinate magnitude)",
               "non-degenerate segments are at least 1e-4 of the configuration scale long (the absolute 1e-8 "
               "zero-length test of project() is only exercised with exactly equal end points)"]
EPS = 2.220446049250313e-16


def _scale_offset(rng):
    k = rng.choice([0, 0, 0, -10, -3, 4, 12, 20, 24, rng.randint(-10, 24)])
    s = 2.0 ** k
    if rng.random() < 0.3:
        off = (float(rng.randint(-10 ** 7, 10 ** 7)), float(rng.randint(-10 ** 7, 10 ** 7)))
    else:
        off = (0.0, 0.0)
    return s, off


def _rp(rng, mode="real"):
    if mode == "grid":
        return (float(rng.randint(0, 4)), float(rng.randint(0, 4)))
    if mode == "half":
        return (rng.randint(0, 16) / 4, rng.randint(0, 16) / 4)
    return (rng.uniform(-5, 5), rng.uniform(-5, 5))


def _along(a, b, s):
    return (a[0] + s * (b[0] - a[0]), a[1] + s * (b[1] - a[1]))


def _nondeg(rng, mode):
    while True:
        a, b = _rp(rng, mode), _rp(rng, mode)
        if math.dist(a, b) > 1e-2:
            return a, b


def gen_segseg(rng, cls):
    mode = rng.choice(["real", "half", "grid"])
    if cls in ("grid", "half"):
        a, b, c, d = [_rp(rng, cls) for _ in range(4)]
        return a, b, c, d
    a, b = _nondeg(rng, mode)
    c, d = _nondeg(rng, mode)
    if cls == "general":
        a, b, c, d = [_rp(rng, "real") for _ in range(4)]
    elif cls == "zero_f":
        b = a
    elif cls == "zero_t":
        d = c
    elif cls == "zero_both":
        b = a
        d = c
        if rng.random() < 0.2:
            c = d = a
    elif cls == "parallel":
        k = rng.choice([0.5, 1, 2, -1, -0.5, 0.25, -3])
        d = (c[0] + k * (b[0] - a[0]), c[1] + k * (b[1] - a[1]))
    elif cls.startswith("collinear"):
        # dyadic parameters so that collinearity is exact for dyadic a, b
        if mode == "real":
            a, b = _nondeg(rng, "half")
        if cls == "collinear_overlap":
            s0 = rng.choice([-1, -0.5, 0, 0.25, 0.5])
            s1 = s0 + rng.choice([0.25, 0.5, 1, 2, 3])
            if s1 < 0:
                s1 = 0.5
        elif cls == "collinear_disjoint":
            s0 = rng.choice([1.25, 1.5, 2, 3, 5])
            s1 = s0 + rng.choice([0.25, 1, 2])
            if rng.random() < 0.5:
                s0, s1 = -s0 + 1, -s1 + 1
        else:
            s0 = 1.0 if rng.random() < 0.5 else 0.0
            s1 = s0 + rng.choice([0.5, 1, 2]) * (1 if s0 == 1.0 else -1)
        c, d = _along(a, b, s0), _along(a, b, s1)
        if rng.random() < 0.5:
            c, d = d, c
    elif cls == "crossing":
        m = _along(a, b, rng.choice([0.25, 0.5, 0.75, rng.random()]))
        v = (rng.uniform(-2, 2), rng.uniform(-2, 2))
        c = (m[0] - v[0], m[1] - v[1])
        d = (m[0] + v[0] * rng.uniform(0.2, 3), m[1] + v[1] * rng.uniform(0.2, 3))
    elif cls == "t_junction":
        if mode == "real":
            a, b = _nondeg(rng, "half")
        c = _along(a, b, rng.choice([0.25, 0.5, 0.75]))
        d = _rp(rng, mode)
    elif cls == "shared_endpoint":
        c = rng.choice([a, b])
        if rng.random() < 0.5:
            c, d = d, c
    elif cls == "near_parallel":
        ang = 10 ** rng.uniform(-12, -3) * rng.choice([-1, 1])
        vx, vy = b[0] - a[0], b[1] - a[1]
        k = rng.choice([0.5, 1, 2, -1])
        wx = k * (vx * math.cos(ang) - vy * math.sin(ang))
        wy = k * (vx * math.sin(ang) + vy * math.cos(ang))
        if rng.random() < 0.5:
            c = _along(a, b, rng.uniform(-1, 2))
            c = (c[0] + rng.uniform(-1, 1) * 10 ** rng.uniform(-6, 0), c[1])
        d = (c[0] + wx, c[1] + wy)
    if rng.random() < 0.3:
        a, b, c, d = c, d, a, b
    return a, b, c, d


def gen_ptseg(rng, cls):
    mode = rng.choice(["real", "half", "grid"])
    if cls == "grid":
        return _rp(rng, "grid"), _rp(rng, "grid"), _rp(rng, "grid")
    a, b = _nondeg(rng, mode)
    nrm = (-(b[1] - a[1]), b[0] - a[0])
    h = rng.choice([0, 0.25, 1, -0.5, rng.uniform(-3, 3)])
    if cls == "interior":
        s = rng.choice([0.25, 0.5, 0.75, rng.random()])
    elif cls == "before":
        s = -rng.choice([0.25, 1, 3, rng.random() * 3])
    elif cls == "beyond":
        s = 1 + rng.choice([0.25, 1, 3, rng.random() * 3])
    elif cls == "on_segment":
        s, h = rng.choice([0.25, 0.5, 0.75, rng.random()]), 0
    elif cls == "at_endpoint":
        s = rng.choice([0.0, 1.0])
        if rng.random() < 0.5:
            h = 0
    else:  # zero_length
        b = a
        return _rp(rng, mode), a, b
    m = _along(a, b, s)
    return (m[0] + h * nrm[0], m[1] + h * nrm[1]), a, b


def _xform(pts, s, off):
    return [((p[0] * s) + off[0], (p[1] * s) + off[1]) for p in pts]


def gen_case(rng, i, tier):
    if i % 40 == 7:
        from .. import mcase
        mc = mcase.gen_mcase(rng, ne=(rng.random() < 0.7), width="maybe", tighten_p=0.0, sparse_p=0.3, max_obs=8,
                             kinds=("random", "grid", "chain", "chain_dyadic"))
        k = rng.choice([0, 0, -8, 6, 16])
        off = (float(rng.randint(-10 ** 6, 10 ** 6)), float(rng.randint(-10 ** 6, 10 ** 6))) if rng.random() < 0.3 else (0.0, 0.0)
        from .. import gen as G
        sc = 2.0 ** k
        mc["map"] = G.transform_map(mc["map"], sc, off)
        mc["trace"] = G.transform_trace(mc["trace"], sc, off)
        for key in ("obs_noise", "obs_noise_ne", "dist_noise", "dist_noise_ne", "max_dist", "max_dist_init"):
            if mc["cfg"].get(key) is not None:
                mc["cfg"][key] *= sc
        return {"fn": "matcher", "cls": "matcher", "mcase": mc}
    r = rng.random()
    s, off = _scale_offset(rng)
    if r < 0.6:
        cls = SEG_CLASSES[i % len(SEG_CLASSES)] if rng.random() < 0.8 else rng.choice(SEG_CLASSES)
        pts = _xform(gen_segseg(rng, cls), s, off)
        return {"fn": "segseg", "cls": cls, "pts": pts, "scale": s, "off": off}
    if r < 0.93:
        cls = PT_CLASSES[i % len(PT_CLASSES)] if rng.random() < 0.8 else rng.choice(PT_CLASSES)
        pts = _xform(gen_ptseg(rng, cls), s, off)
        return {"fn": "ptseg", "cls": cls, "pts": pts, "scale": s, "off": off}
    p = _xform([_rp(rng, rng.choice(["real", "half"]))], s, off)[0]
    rad = s * rng.choice([0.25, 1, 3, 50, rng.uniform(0.01, 100)])
    return {"fn": "box", "cls": "box", "pts": [p], "r": rad, "scale": s, "off": off}


def exact_class(a, b, c, d):
    """classification of a segment pair by exact arithmetic (used in violation signatures)."""
    A, B, C, D = rg.fr(a), rg.fr(b), rg.fr(c), rg.fr(d)
    zf, zt = A == B, C == D
    if zf and zt:
        return "zero-both"
    if zf:
        return "zero-f"
    if zt:
        return "zero-t"
    n = (D[1] - C[1]) * (B[0] - A[0]) - (D[0] - C[0]) * (B[1] - A[1])
    if n == 0:
        if rg.f_cross(A, B, C) == 0:
            if rg.f_intersects(A, B, C, D):
                return "collinear-overlap-or-touch"
            return "collinear-disjoint"
        return "parallel"
    if rg.f_intersects(A, B, C, D):
        return "intersecting"
    return "general-disjoint"


def tol_of(pts, extra=0.0):
    m = max(abs(x) for p in pts for x in p)
    ys = [p[0] for p in pts]
    xs = [p[1] for p in pts]
    e = max(max(ys) - min(ys), max(xs) - min(xs), extra)
    return 1e-6 * e + 64 * EPS * m


def check_segseg(ctx, fn, a, b, c, d, case, where="direct", res=None):
    """contract on one call of distance_segment_to_segment; fn is the (unwrapped) real function."""
    ctx.evaluated()
    ctx.count("segseg_judged" if where == "direct" else "segseg_judged_in_matcher")
    a, b, c, d = tuple(a[:2]), tuple(b[:2]), tuple(c[:2]), tuple(d[:2])
    try:
        if res is None:
            res = fn(a, b, c, d)
        dd, pf, pt, uf, ut = res
    except Exception as e:  # totality of the primitive on finite input
        ctx.violation(f"C13:segseg:raises-{type(e).__name__}:{exact_class(a, b, c, d)}", case, repr(e))
        return None
    tol = tol_of([a, b, c, d])
    ref = rg.pl_segseg(a, b, c, d)
    bad = []
    if not (abs(dd - ref) <= tol):
        bad.append(("distance-not-minimum", f"returned {dd!r}, exact minimum {ref!r}, tol {tol:.3g}"))
    if not (0 <= uf <= 1 and 0 <= ut <= 1):
        bad.append(("relpos-outside-unit", f"u_f={uf!r} u_t={ut!r}"))
    else:
        pfe = _along(a, b, uf)
        pte = _along(c, d, ut)
        if not (math.dist(pf, pfe) <= tol):
            bad.append(("point-f-not-at-relpos", f"pf={pf!r} but f(u_f={uf!r})={pfe!r}"))
        if not (math.dist(pt, pte) <= tol):
            bad.append(("point-t-not-at-relpos", f"pt={pt!r} but t(u_t={ut!r})={pte!r}"))
    if not (abs(math.dist(pf, pt) - dd) <= tol):
        bad.append(("points-do-not-realise-distance", f"|pf-pt|={math.dist(pf, pt)!r} vs d={dd!r}"))
    if bad:
        ec = exact_class(a, b, c, d)
        for kind, why in bad:
            ctx.violation(f"C13:segseg:{kind}:{ec}", case, f"[{where}] {why}; args={a, b, c, d}; result={res!r}")
    return res


def _pre_variant(p):
    import struct
    return int.from_bytes(struct.pack("d", float(p[0]) + float(p[1])), "little") % 4 == 0


def check_ptseg(ctx, fn_proj, fn_dist, p, a, b, case, where="direct", res=None):
    ctx.evaluated()
    ctx.count("ptseg_judged" if where == "direct" else "ptseg_judged_in_matcher")
    p, a, b = tuple(p[:2]), tuple(a[:2]), tuple(b[:2])
    tol = tol_of([p, a, b])
    rd, rt, rq = rg.pl_point_segment(p, a, b)
    try:
        if res is None:
            if _pre_variant(p):
                # the answer to a default call may not depend on what was asked before: a quarter of the judged calls is
                # preceded by a call for the SAME point and segment with another value of the optional `delta`
                ctx.count("calls_preceded_by_other_options")
                try:
                    fn_dist(p, a, b, delta=0.25)
                    fn_proj(a, b, p, delta=0.125)
                except Exception:
                    pass
            q, t = fn_proj(a, b, p)
            dd, q2, t2 = fn_dist(p, a, b)
        else:
            dd, q, t = res
            q2, t2 = q, t
    except Exception as e:
        ctx.violation(f"C13:ptseg:raises-{type(e).__name__}", case, repr(e))
        return
    zero = "zero" if tuple(a) == tuple(b) else "seg"
    if not (0 <= t <= 1):
        ctx.violation(f"C13:project:relpos-outside-unit:{zero}", case, f"[{where}] t={t!r}")
        return
    if not (math.dist(q[:2], _along(a, b, t)) <= tol):
        ctx.violation(f"C13:project:point-not-at-relpos:{zero}", case, f"[{where}] q={q!r} t={t!r} a={a} b={b}")
    if not (math.dist(q[:2], rq) <= tol):
        ctx.violation(f"C13:project:not-nearest-point:{zero}", case, f"[{where}] q={q!r} exact nearest={rq!r} p={p} a={a} b={b}")
    if zero == "seg" and not (abs(t - rt) * math.dist(a, b) <= tol):
        ctx.violation(f"C13:project:relpos-wrong:{zero}", case, f"[{where}] t={t!r} exact={rt!r}")
    if not (abs(dd - rd) <= tol):
        ctx.violation(f"C13:distance_point_to_segment:distance-wrong:{zero}", case, f"[{where}] d={dd!r} exact={rd!r} p={p} a={a} b={b}")
    if tuple(q2[:2]) != tuple(q[:2]) or t2 != t:
        ctx.violation(f"C13:distance_point_to_segment:disagrees-with-project:{zero}", case, f"[{where}] {q2, t2} vs {q, t}")
    if res is None and where == "direct" and int(abs(rd) * 1e7) % 5 == 0:
        # the same call with the points given as lists / numpy arrays / numpy scalars
        import numpy as np
        ctx.count("container_variants_judged")
        cnt = [0]

        def with_time(x):
            # (y, x, time) triples as the matcher passes them on: the third component is no coordinate
            cnt[0] += 1
            return (x[0], x[1], 1000.0 + 37.0 * cnt[0])
        for mk in (list, np.array, lambda x: tuple(np.float64(v) for v in x), with_time):
            try:
                d3, q3, t3 = fn_dist(mk(p), mk(a), mk(b))
                if not (abs(float(d3) - dd) <= tol and math.dist([float(v) for v in q3[:2]], q2[:2]) <= tol and abs(float(t3) - t2) * max(math.dist(a, b), 1e-300) <= tol):
                    ctx.violation(f"C13:distance_point_to_segment:container-changes-the-answer:{zero}", case, f"{(d3, q3, t3)} vs {(dd, q2, t2)}")
            except Exception as e:
                ctx.violation(f"C13:ptseg:raises-{type(e).__name__}:container", case, repr(e))


BEARINGS = [i * 2 * math.pi / 64 for i in range(64)]


def check_box(ctx, p, r, case):
    ctx.evaluated()
    ctx.count("box_checks")
    try:
        yb, xl, yt, xr = de.box_around_point(p, r)
    except Exception as e:
        ctx.violation(f"C13:box:raises-{type(e).__name__}", case, repr(e))
        return
    rr = r * (1 - 1e-12)
    for bg in BEARINGS:
        q = (p[0] + rr * math.cos(bg), p[1] + rr * math.sin(bg))
        if rg.pl_dist(p, q) > r:
            continue
        if not (yb <= q[0] <= yt and xl <= q[1] <= xr):
            ctx.violation("C13:box:disc-point-outside-box", case, f"p={p} r={r} q={q} box={(yb, xl, yt, xr)}")
            return
    d_ref = rg.pl_dist(p, (p[0] + r, p[1]))
    if not abs(de.distance(p, (p[0] + r, p[1])) - d_ref) <= tol_of([p, (p[0] + r, p[1])]):
        ctx.violation("C13:distance:wrong", case, f"p={p} r={r}")


def shard_setup(ctx):
    """Part B: contracts on the module functions as the matcher itself calls them.  The wrappers are installed on the
    module attributes before any map is built (BaseMap binds the functions at construction) and are only active
    while a 'matcher' case runs."""
    orig_ss, orig_ps = de.distance_segment_to_segment, de.distance_point_to_segment
    ctx.state["orig"] = (orig_ss, orig_ps)
    st = ctx.state

    def ss(f1, f2, t1, t2):
        res = orig_ss(f1, f2, t1, t2)
        if st.get("active") is not None:
            check_segseg(ctx, None, f1, f2, t1, t2, st["active"], where="matcher", res=res)
        return res

    def ps(p, s1, s2, delta=0.0):
        res = orig_ps(p, s1, s2, delta=delta)
        if st.get("active") is not None and delta == 0.0:
            check_ptseg(ctx, None, None, p, s1, s2, st["active"], where="matcher", res=res)
        return res
    de.distance_segment_to_segment = ss
    de.distance_point_to_segment = ps


def shard_teardown(ctx):
    de.distance_segment_to_segment, de.distance_point_to_segment = ctx.state["orig"]


def check_matcher(ctx, case):
    from .. import build
    mc = case["mcase"]
    ctx.count("matcher_runs_under_contracts")
    wit = {"fn": "matcher", "mcase": mc}
    ctx.state["active"] = wit
    try:
        mp = build.make_inmem(mc["map"])
        mt = build.make_matcher(mp, mc["cfg"])
        try:
            mt.match(build.trace(mc["trace"]))
        except Exception:
            ctx.count("matcher_raised")
    finally:
        ctx.state["active"] = None


def check_case(ctx, case):
    if case["fn"] == "matcher":
        return check_matcher(ctx, case)
    pts = [tuple(p) for p in case["pts"]]
    if case["fn"] == "segseg":
        a, b, c, d = pts
        ctx.count(f"segseg_class:{case['cls']}")
        ec = exact_class(a, b, c, d)
        ctx.count(f"segseg_exact:{ec}")
        if ec != "general-disjoint" or case["cls"] == "near_parallel":
            ctx.nontriv(case["pts"])
        check_segseg(ctx, de.distance_segment_to_segment, a, b, c, d, case)
        ctx.sample(case)
    elif case["fn"] == "ptseg":
        p, a, b = pts
        ctx.count(f"ptseg_class:{case['cls']}")
        if case["cls"] != "interior":
            ctx.nontriv(case["pts"])
        check_ptseg(ctx, de.project, de.distance_point_to_segment, p, a, b, case)
    else:
        check_box(ctx, pts[0], case["r"], case)
        ctx.nontriv([case["pts"], case["r"]])

TECHNIQUE = "runtime monitoring: reference-model oracle (exact rational geometry) over generated hostile calls of the real primitives"
LEVEL_TEXT = ("Every call of the real planar primitives on {Q} (quick) / {T} (thorough) generated configurations from 21 named "
              "degenerate classes, scales 2^-10..2^24 and offsets to 1e7 is judged against exact rational arithmetic; "
              "held-on-observed, not a proof. Exploration is the right level: the property is a numeric contract on pure "
              "functions whose failures are input-class specific (parallel, collinear, zero-length, near-parallel).")
LEVEL_NOTE = ("Trusted: CPython Fractions/floats, the generators' class coverage (counted per class, floors enforced). "
              "Tolerance 1e-6*extent + 64 ulp of the largest coordinate; defects below that are invisible.")
