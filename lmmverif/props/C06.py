"""C06 Allowing non-emitting states never makes the match worse.

Monitor shape: differential monitor over two sibling executions built from ONE configuration
dict in which only `non_emitting` differs (first-order transition model, no width pruning).
"""
import logging

from .. import env
from .. import gen, build, mcase

ID = "C06"
CASES = {"quick": 16000, "thorough": 200000}
MIN_CASES_PER_SHARD = 40
CASE_TIMEOUT = 40
RULE = ("one case = generated map x trace x first-order configuration without width (all families; noise, obs_noise_ne, length factor, cut-offs "
        "incl. exact thresholds), run with non-emitting states off and on; 55 % are chain maps with every 2nd-4th node observed; 30 % use no length penalty with observations exactly on roads (exact ties between a non-emitting chain and the direct candidate); 20 % of the pairs run at DEBUG. Non-trivial = "
        "the two results differ or the on-run's best path contains a non-emitting state; distinct = hash of the case")
ANCHORS = [("leuvenmapmatching/matcher/base.py", "BaseMatcher._match_non_emitting_states"),
           ("leuvenmapmatching/matcher/base.py", "BaseMatcher._match_non_emitting_states_inner"),
           ("leuvenmapmatching/matcher/base.py", "BaseMatcher._match_non_emitting_states_end"),
           ("leuvenmapmatching/matcher/base.py", "LatticeColumn.upsert"),
           ("leuvenmapmatching/matcher/base.py", "BaseMatching.update")]
FLOORS = {"pairs_judged": 1800, "on_run_uses_nonemitting": 500, "results_differ": 300, "both_complete": 800, "on_run_longer": 50,
          "family:simple": 300, "family:simple_nodes": 300, "family:distance": 300, "family:newsonkrumm": 300, "debug_level_pairs": 400, "linked_edge_pairs": 500, "out_and_back_cases": 800, "dense_cases_more_than_100_candidates": 30}
ASSUMPTIONS = ["both runs are instantiated from one explicit configuration dict; only `non_emitting` differs",
               "best probability compared at 1e-9*max(1,|x|)"]


def gen_dense_case(rng):
    """more than 100 live candidates in one column (a car park: many short aisles beside the first observations, closer than
    the through road the vehicle then takes): any bound on the number of candidates inside the implementation bites here."""
    na = rng.randint(105, 160)
    L = 20
    nodes = [[j, [0.0, float(j)]] for j in range(L + 1)]
    edges = [[j, j + 1] for j in range(L)]
    if rng.random() < 0.4:
        edges += [[j + 1, j] for j in range(L)]
    nid = L + 1
    off = rng.choice([0.3, 0.4])
    for a in range(na):
        y = off + (a - na / 2.0) * (0.25 / na)
        nodes += [[nid, [y, 0.0]], [nid + 1, [y, 1.6]]]
        edges.append([nid, nid + 1])
        nid += 2
    tr = [[off, 0.3], [off, 1.1], [0.05, 1.9], [0.0, 2.7], [-0.05, 3.5], [0.0, 4.3], [0.0, 5.1]]
    tr = tr[:rng.randint(4, 7)]
    cfg = gen.gen_cfg(rng, ne=False, width=False, agb=False, cut=False)
    cfg["obs_noise"] = rng.choice([0.5, 1.0])
    cfg["max_dist"] = 1.0
    return {"map": {"nodes": nodes, "edges": edges, "latlon": False, "kind": "dense"}, "trace": tr, "cfg": cfg, "debug": False, "dense": True}


def gen_case(rng, i, tier):
    if i % 120 == 57:
        return gen_dense_case(rng)
    if i % 10 == 7:
        case = gen.gen_carriageway_case(rng)   # linked parallel carriageways with a by-pass ending in the same node
        case["cfg"].update(non_emitting=False, agb=False, width=None)
        case["debug"] = False
        case["linked_class"] = True
        return case
    if i % 10 == 3:
        from .C04 import gen_shared_end_case
        case = gen_shared_end_case(rng)   # linked parallel edges, two edges ending in one node
        case["cfg"].update(non_emitting=False, agb=False, width=None)
        case["debug"] = False
        case["linked_class"] = True
        return case
    # all four matcher classes: the Newson-Krumm style scores are first-order too
    case = mcase.gen_mcase(rng, families=gen.FAMILIES_ALL, ne=False, width=False, agb=False, tighten_p=0.3, sparse_p=0.55, max_obs=9)
    if i % 10 in (5, 9):
        # out and back over skipped nodes, observations on the nodes (see gen.gen_out_and_back_case)
        m, tr = gen.gen_out_and_back_case(rng, labels=("int", "str"))
        case["map"], case["trace"] = m, tr
        case["cfg"].update(max_dist=None, max_dist_init=None, min_prob_norm=None)
        case["cfg"]["obs_noise"] = rng.choice([1.0, 0.7, 1.3])
        r_ = rng.random()
        if r_ < 0.5:
            case["cfg"]["family"] = "simple_nodes"
        elif r_ < 0.7:
            case["cfg"]["family"] = "newsonkrumm"
            case["cfg"]["obs_noise_ne"] = rng.choice([None, 0.5, 0.25, 3.0]) if case["cfg"]["obs_noise"] >= 1.0 else None
            case["cfg"]["max_dist_init"] = rng.choice([None, 0.6, 0.3])
        case["out_and_back"] = True
        case["debug"] = False
        return case
    if case["cfg"]["family"] != "simple_nodes" and rng.random() < 0.15:
        es = gen.real_edges(case["map"])
        if len(es) >= 2:
            linked = []
            for _ in range(rng.randint(1, 4)):
                a, b = rng.sample(es, 2)
                linked += [[list(a), list(b)], [list(b), list(a)]]
            case["map"]["linked"] = linked
    if rng.random() < 0.3:
        # exact ties between a non-emitting chain and the direct emitting candidate: no length penalty, observations ON the roads
        case["cfg"]["ne_factor"] = 1.0
        c = gen.coords(case["map"])
        es = gen.real_edges(case["map"])
        if es and rng.random() < 0.6:
            tr = []
            for p in case["trace"]:
                a, b = rng.choice(es)
                t = rng.choice([0.0, 0.25, 0.5, 1.0])
                tr.append([c[a][0] + t * (c[b][0] - c[a][0]), c[a][1] + t * (c[b][1] - c[a][1])])
            case["trace"] = tr
        case["cfg"]["restrained_ne"] = rng.random() < 0.5
    case["debug"] = rng.random() < 0.2   # both sibling runs at DEBUG: the relation must hold at every log level
    return case


def check_case(ctx, case):
    if case.get("out_and_back"):
        ctx.count("out_and_back_cases")
    if case.get("dense"):
        ctx.count("dense_cases_more_than_100_candidates")
    tr = build.trace(case["trace"])
    res = {}
    for on in (False, True):
        cfg = dict(case["cfg"])
        cfg["non_emitting"] = on
        mt = build.make_matcher(build.make_inmem(case["map"]), cfg)
        if case.get("debug"):
            env.logger.setLevel(logging.DEBUG)
        try:
            r = mt.match(tr)
        except Exception as e:
            ctx.count("match_raised")
            return
        finally:
            env.logger.setLevel(logging.ERROR)
        c = build.canon(mt, r)
        c["uses_ne"] = any(x.obs_ne for x in (mt.lattice_best or []))
        res[on] = c
    off, on = res[False], res[True]
    fam = case["cfg"]["family"]
    ctx.evaluated(2)
    ctx.count("pairs_judged")
    if case.get("debug"):
        ctx.count("debug_level_pairs")
    if case["map"].get("linked"):
        ctx.count("linked_edge_pairs")
    ctx.count(f"family:{fam}")
    n = len(tr)
    oi = -1 if off["empty"] else off["idx"]
    ni = -1 if on["empty"] else on["idx"]
    if on["uses_ne"]:
        ctx.count("on_run_uses_nonemitting")
    differ = (oi != ni) or (off["best"] is not None and on["best"] is not None and abs(off["best"] - on["best"]) > 1e-9 * max(1, abs(off["best"])))
    if differ:
        ctx.count("results_differ")
    if differ or on["uses_ne"]:
        ctx.nontriv(case)
    if ni > oi:
        ctx.count("on_run_longer")
    if on["empty"] and not off["empty"]:
        ctx.violation(f"C06:empty-only-with-nonemitting-states:{fam}", case, f"off: idx {oi}; on: empty")
    elif ni < oi:
        ctx.violation(f"C06:matched-prefix-shortened:{fam}", case, f"index {oi} without, {ni} with non-emitting states (trace length {n})")
    elif oi == n - 1 and ni == n - 1:
        ctx.count("both_complete")
        if on["best"] < off["best"] - 1e-9 * max(1.0, abs(off["best"])):
            ctx.violation(f"C06:best-probability-lowered:{fam}", case, f"best log-probability {off['best']!r} without, {on['best']!r} with non-emitting states")
    ctx.sample(case)


# no clause depends on the map backend: a tenth of the eligible cases (integer labels, no linked edges) runs on SqliteMap
_bk_gen, _bk_chk = build.backend_dimension(0.12)
gen_case = _bk_gen(gen_case)
check_case = _bk_chk(check_case)

# no clause depends on the coordinate unit: 8 % of the planar cases are expressed in a small unit (everything x 2^-7..2^-17)
gen_case = mcase.scale_dimension(0.08)(gen_case)

TECHNIQUE = "runtime monitoring: differential monitor over sibling executions (non-emitting states off / on, one shared configuration)"
LEVEL_TEXT = ("{Q} (quick) / {T} (thorough) pairs of real runs; the on-run must not match a shorter prefix, must not be empty alone, and for two "
              "complete matches must reach at least the off-run's best probability; the fraction of on-runs whose best path really contains "
              "non-emitting states is measured and has a floor. Held-on-observed.")
LEVEL_NOTE = "Trusted: nothing beyond the two executions. Only first-order, unpruned configurations, as the property states."
