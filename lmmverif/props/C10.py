"""C10 Matching is deterministic.

Monitor shape: recorded event log + offline checker.  (a) Every generated case is executed in
K fresh interpreters that differ only in PYTHONHASHSEED (quick 4, thorough 12); each process logs
the canonical result per case; the offline checker compares the logs (no tie allowance: the
statement promises identical results).  (b) In-process: permuting node order and neighbour
order must leave index and best probability unchanged, and the path unless the optimum is an
exact tie.
"""
import json
import os
import random

from .. import env  # noqa: F401
from .. import gen, build, mcase, oracles
from ..ctx import jhash

ID = "C10"
CASES = {"quick": 3000, "thorough": 40000}
MIN_CASES_PER_SHARD = 150
MAX_SHARDS = 4
CASE_TIMEOUT = 40
RULE = ("one case = generated map (string and int labels; symmetric dyadic grids with exact ties; two-way streets) x trace (incl. length 1, early "
        "stops with non-emitting layers in the last matched column; 1 in 6 a mirror-symmetric one-way merge with a loop back into one side and the observation on the axis) x configuration (all families, non-emitting, widths), executed in 4 (quick) / "
        "12 (thorough) fresh processes with different PYTHONHASHSEED, plus 2 node/neighbour-order permutations in process. Non-trivial = >= 2 live "
        "candidates in the final matched column; distinct = hash of the case")
ANCHORS = [("leuvenmapmatching/matcher/base.py", "BaseMatcher._build_node_path"),
           ("leuvenmapmatching/matcher/base.py", "LatticeColumn.values_all"),
           ("leuvenmapmatching/matcher/base.py", "LatticeColumn.prune"),
           ("leuvenmapmatching/matcher/base.py", "BaseMatching.update")]
FLOORS = {"symmetric_fork_cases": 100, "linked_tie_cases": 100, "linked_tie_cases_string_labels": 60, "cases_compared_across_processes": 800, "cases_with_two_final_candidates": 400, "permutations_judged": 1500,
          "final_column_with_nonemitting_layer": 40, "exact_tie_in_final_column": 50, "string_label_cases": 300, "mirror_loop_cases": 300, "diamond_cases": 300, "diamond_cases_with_nonemitting_on_path": 150, "nonemitting_state_with_exactly_tied_predecessors": 100}
ASSUMPTIONS = ["hash-seed clause: canonical results (returned states, index, keys and log-probabilities of the best path) must be IDENTICAL across processes",
               "permutation clause: index and best probability equal (1e-9); paths may differ only through an exact tie: equal totals, or equal probability of the two alternatives at the first position where the paths diverge (what follows - e.g. the trailing non-emitting states after an early stop - is a consequence of that choice)"]
HASHSEEDS = ["0", "1", "2", "3", "11", "17", "42", "99", "123", "1000", "31337", "4242"]


def shard_envs(tier):
    k = 4 if tier == "quick" else 12
    return [{"PYTHONHASHSEED": s} for s in HASHSEEDS[:k]]


def gen_mirror_case(rng):
    """mirror-symmetric one-way merges with a loop back into ONE side: two start states reach the merged road with bit-equal
    probability, the observation sits on the axis of symmetry; whatever breaks the tie must not depend on the hash seed."""
    h = rng.choice([1.0, 2.0, 3.0])
    back = rng.choice([2.0, 3.0, 4.0])
    L = rng.choice([4.0, 6.0, 8.0])
    pts = {"u": (h, -back), "d": (-h, -back), "m": (0.0, 0.0), "e": (0.0, L), "x": (2 * h, -2 * back), "y": (-2 * h, -2 * back),
           "f": (0.0, L + 3.0)}
    names = list(pts)
    labs = rng.sample(range(1, 60), len(names))
    if rng.random() < 0.5:
        labs = ["N%d" % v for v in labs]
    lab = dict(zip(names, labs))
    edges = [("u", "m"), ("d", "m"), ("m", "e")]
    loop_to = rng.choice(["u", "d"])
    edges.append(("e", loop_to))
    edges.append((loop_to, "x" if loop_to == "u" else "y"))
    if rng.random() < 0.5:
        edges.append(("e", "f"))
    if rng.random() < 0.4:
        edges += [("x", "u"), ("y", "d")]
    if rng.random() < 0.3:
        edges += [("m", "u"), ("m", "d")]
    rng.shuffle(edges)
    nodes = [[lab[k], [v[0], v[1]]] for k, v in pts.items()]
    rng.shuffle(nodes)
    m = {"nodes": nodes, "edges": [[lab[a], lab[b]] for a, b in edges], "latlon": False, "kind": "mirror_loop"}
    t0 = rng.choice([0.25, 0.5, 0.75])
    tr = [[0.0, -back * t0]]                       # on the axis, equidistant from u->m and d->m
    tgt = pts[loop_to]
    a = rng.choice([0.3, 0.5, 0.7])
    tr.append([pts["e"][0] + a * (tgt[0] - pts["e"][0]) + rng.choice([0.0, 0.1]), pts["e"][1] + a * (tgt[1] - pts["e"][1])])
    out = pts["x" if loop_to == "u" else "y"]
    tr.append([(tgt[0] + out[0]) / 2, (tgt[1] + out[1]) / 2])
    if rng.random() < 0.3:
        tr.insert(1, [0.0, L * rng.choice([0.25, 0.5])])
    cfg = gen.gen_cfg(rng, ne=True, width="maybe", cut=False)
    cfg["obs_noise"] = rng.choice([0.5, 1.0, 2.0])
    cfg["dist_noise"] = rng.choice([None, 5.0, 10.0]) if cfg["family"] == "distance" else None
    cfg["max_dist_init"] = rng.choice([None, back + h])
    cfg["max_dist"] = rng.choice([None, None, 1.5, 3.0])
    cfg["min_prob_norm"] = rng.choice([None, 0.0001])
    cfg["restrained_ne"] = rng.random() < 0.5
    return {"map": m, "trace": tr, "cfg": cfg, "unique": rng.random() < 0.5, "mirror": True}


def gen_diamond_case(rng):
    """one-way chain in which two alternative roads of different length leave one node and rejoin (no ties), observed so
    sparsely that both gaps are bridged by non-emitting states: the state after the rejoin is reached from two predecessors
    at the same non-emitting depth; which one is listed first must not matter."""
    u = rng.choice([1.0, 10.0, 25.0])
    xs = [-4.0, 1.0, None, None, 8.0, 10.0, 13.2, 16.0, 20.0]
    pts = {"A": (0.0, -4.0), "B": (0.0, 1.0), "C": (rng.uniform(-0.5, -0.1), rng.uniform(4.5, 6.5)), "D": (rng.uniform(0.1, 0.6), rng.uniform(3.5, 5.5)),
           "E": (0.0, 8.0), "F": (0.0, 10.0), "G": (rng.uniform(-0.3, 0.3), 13.2), "H": (0.0, 16.0), "I": (0.0, 20.0)}
    names = list(pts)
    ids = rng.sample(range(1, 80), len(names))
    lab = dict(zip(names, ids if rng.random() < 0.5 else ["N%d" % v for v in ids]))
    edges = [("A", "B"), ("B", "C"), ("B", "D"), ("C", "E"), ("D", "E"), ("E", "F"), ("F", "G"), ("G", "H"), ("H", "I")]
    if rng.random() < 0.3:
        pts["K"] = (rng.uniform(0.8, 1.2), rng.uniform(4.0, 6.0))
        lab["K"] = (max(ids) + 1) if isinstance(lab["A"], int) else "N%d" % (max(ids) + 1)
        edges += [("B", "K"), ("K", "E")]
    rng.shuffle(edges)
    nodes = [[lab[k], [v[0] * u, v[1] * u]] for k, v in pts.items()]
    rng.shuffle(nodes)
    m = {"nodes": nodes, "edges": [[lab[a], lab[b]] for a, b in edges], "latlon": False, "kind": "diamond"}
    tr = [[0.1 * u, -2.0 * u], [0.1 * u, rng.choice([9.0, 9.5, 11.0]) * u], [0.1 * u, rng.choice([17.0, 19.0]) * u]]
    cfg = gen.gen_cfg(rng, families=("distance", "distance", "simple", "newsonkrumm"), ne=True, width="maybe", cut=False)
    cfg["obs_noise"] = 0.5 * u
    cfg["obs_noise_ne"] = rng.choice([None, 1.0 * u])
    cfg["dist_noise"] = rng.choice([None, 0.5 * u]) if cfg["family"] == "distance" else None
    cfg["max_dist"] = rng.choice([None, 3.0 * u])
    cfg["restrained_ne"] = rng.random() < 0.5
    return {"map": m, "trace": tr, "cfg": cfg, "unique": rng.random() < 0.5, "diamond": True}


def gen_linked_tie_case(rng):
    """a road whose end is linked (InMemMap linked_edges, list or set valued) to two or three parallel carriageways that lie
    mirror-symmetrically around the trace: exactly equally probable linked moves.  Mostly string labels."""
    u = rng.choice([1.0, 2.0, 0.5])
    names = ["a", "b", "c", "d", "e", "f", "g", "h"]
    ids = rng.sample(range(1, 90), len(names))
    style = rng.choice(["str", "str", "str2", "int"])
    lab = {n: (v if style == "int" else ("N%d" % v if style == "str" else "node_%03d_x" % v)) for n, v in zip(names, ids)}
    off = rng.choice([1.0, 1.5, 2.0])
    pts = {"a": (0.0, 0.0), "b": (0.0, 10.0), "c": (off, 12.0), "d": (off, 22.0), "e": (-off, 12.0), "f": (-off, 22.0)}
    edges = [("a", "b"), ("c", "d"), ("e", "f")]
    linked = [[["a", "b"], ["c", "d"]], [["a", "b"], ["e", "f"]]]
    if rng.random() < 0.4:
        pts.update({"g": (0.0, 12.0 + rng.choice([0.0, 1.0])), "h": (3 * off, 22.0)})
        edges.append(("g", "h"))
        linked.append([["a", "b"], ["g", "h"]])
    if rng.random() < 0.5:
        linked = [linked[k] for k in rng.sample(range(len(linked)), len(linked))]
    rng.shuffle(edges)
    nodes = [[lab[k], [v[0] * u, v[1] * u]] for k, v in pts.items()]
    rng.shuffle(nodes)
    m = {"nodes": nodes, "edges": [[lab[a], lab[b]] for a, b in edges], "latlon": False, "kind": "linked_tie",
         "linked": [[[lab[a], lab[b]], [lab[c], lab[d]]] for (a, b), (c, d) in linked]}
    tr = [[0.0, 5.0 * u], [0.0, rng.choice([15.0, 17.0]) * u]]
    if rng.random() < 0.5:
        tr.append([0.0, 20.0 * u])
    cfg = gen.gen_cfg(rng, families=("distance", "simple", "newsonkrumm"), ne=(rng.random() < 0.4), width="maybe", cut=False)
    cfg["obs_noise"] = 2.0 * u
    cfg["max_dist"] = 8.0 * u
    cfg["max_dist_init"] = rng.choice([None, 6.0 * u])
    return {"map": m, "trace": tr, "cfg": cfg, "unique": rng.random() < 0.5, "linked_tie": True}


def gen_fork_case(rng):
    """a one-way stem that forks symmetrically into 2-3 branches; an observation on the stem just before the fork makes the
    fork edges exactly equally probable and the LEAST probable candidates of that column, so the tie group at the pruning
    boundary reaches the end of the candidate list; the trace then continues into one branch."""
    u = rng.choice([1.0, 0.5, 2.0])
    nb = rng.choice([2, 2, 3])
    pts = {"A": (0.0, 0.0), "B": (10.0, 0.0)}
    edges = [("A", "B")]
    offs = [10.0, -10.0, 0.0][:nb] if nb == 3 else [10.0, -10.0]
    for j, o in enumerate(offs):
        pts[f"C{j}"] = (20.0, o)
        pts[f"D{j}"] = (40.0, o)
        edges += [("B", f"C{j}"), (f"C{j}", f"D{j}")]
    names = list(pts)
    ids = rng.sample(range(1, 90), len(names))
    lab = dict(zip(names, ids if rng.random() < 0.5 else ["N%d" % v for v in ids]))
    rng.shuffle(edges)
    nodes = [[lab[k], [v[1] * u, v[0] * u]] for k, v in pts.items()]   # (y, x)
    rng.shuffle(nodes)
    m = {"nodes": nodes, "edges": [[lab[a], lab[b]] for a, b in edges], "latlon": False, "kind": "fork"}
    tgt = rng.randrange(len(offs))
    tr = [[0.0, 2.0 * u], [0.0, rng.choice([9.0, 8.0, 9.5]) * u], [offs[tgt] * u, 35.0 * u]]
    if rng.random() < 0.4:
        tr.insert(2, [offs[tgt] * u * 0.5, 15.0 * u])
    cfg = gen.gen_cfg(rng, families=("distance", "simple", "newsonkrumm"), ne=(rng.random() < 0.3), width=True, cut=False)
    cfg["width"] = rng.choice([1, 2, 2, 3])
    cfg["obs_noise"] = 2.0 * u
    cfg["max_dist"] = rng.choice([5.0, 8.0, 12.0]) * u
    cfg["max_dist_init"] = cfg["max_dist"]
    return {"map": m, "trace": tr, "cfg": cfg, "unique": rng.random() < 0.5, "fork": True}


def gen_case(rng, i, tier):
    if i % 12 == 3:
        return gen_fork_case(rng)
    if i % 12 == 7:
        return gen_linked_tie_case(rng)
    if i % 6 == 1:
        return gen_mirror_case(rng)
    if i % 6 == 4:
        return gen_diamond_case(rng)
    case = mcase.gen_mcase(rng, families=gen.FAMILIES_ALL, width="maybe", tighten_p=0.0, sparse_p=0.3, max_obs=8,
                           kinds=("random", "grid", "grid", "chain", "chain_dyadic"), labels=("int", "str", "str", "gap", "strrev"),
                           hostile=True)
    r = rng.random()
    if r < 0.15:
        case["trace"] = case["trace"][:1]
    elif r < 0.4 and len(case["trace"]) >= 2:
        # outlier at the end: early stop, the last matched column may carry non-emitting layers
        case["trace"][-1] = [case["trace"][-1][0] + 9.0, case["trace"][-1][1] + 7.0]
        if case["cfg"]["max_dist"] is None:
            case["cfg"]["max_dist"] = 2.0
    case["unique"] = rng.random() < 0.5
    if rng.random() < 0.3 and len(case["trace"]) >= 3:
        # a multi-step use of one matcher object: match (with an outlier in the middle: early stop), continue_with_distance,
        # extend, widen ... - determinism is a property of every public call sequence, not only of a single match()
        n = len(case["trace"])
        j = rng.randrange(1, n - 1)
        case["trace"][j] = [case["trace"][j][0] + rng.choice([5.0, 9.0]), case["trace"][j][1] - rng.choice([4.0, 7.0])]
        if case["cfg"]["max_dist"] is None:
            case["cfg"]["max_dist"] = rng.choice([1.0, 2.0])
        ops = [{"op": "match", "k": n, "unique": case["unique"]}, {"op": "cwd"}, {"op": "extend", "k": n, "unique": case["unique"]}]
        if case["cfg"]["width"] is not None and rng.random() < 0.5:
            ops.append({"op": "widen", "w": case["cfg"]["width"] + rng.randint(1, 2), "unique": case["unique"]})
        if rng.random() < 0.3:
            ops += [{"op": "cwd"}, {"op": "extend", "k": n, "unique": case["unique"]}]
        case["ops"] = ops
    return case


def permute(case, rng):
    m = dict(case["map"])
    nodes = list(m["nodes"])
    edges = list(m["edges"])
    rng.shuffle(nodes)
    rng.shuffle(edges)
    m["nodes"], m["edges"] = nodes, edges
    return {**case, "map": m}


def run(case):
    mt = build.make_matcher(build.make_inmem(case["map"]), case["cfg"])
    if case.get("ops"):
        from .. import monitors
        steps = []
        last = [None]

        def after(i, op, res, exc):
            if exc is not None:
                steps.append({"exc": type(exc).__name__})
            elif isinstance(res, tuple):
                last[0] = res
                c_ = build.canon(mt, res)
                st = {"idx": c_["idx"], "empty": c_["empty"], "best": c_["best"]}
                if mt.early_stop_idx is not None and mt.early_stop_idx > 0 and mt.lattice_best:
                    # what continue_with_distance() will start from: the k best last matches (public method)
                    try:
                        blm = mt.best_last_matches(k=2, nb_obs=2)
                        st["best_last"] = {str(o): sorted((x.logprob for x in ms), reverse=True) for o, ms in blm.items()}
                        # was the selection a choice among EXACTLY equally probable candidates?  (the k-th selected one has the
                        # same log-probability as a live candidate of the same column that was not selected)
                        tie = False
                        for o, ms in blm.items():
                            col = mt.lattice.get(o - 1)
                            if col is None or not ms:
                                continue
                            sel = {id(x) for x in ms}
                            worst = min(x.logprob for x in ms)
                            for layer in col.o:
                                for e in layer.values():
                                    if not e.stop and id(e) not in sel and e.logprob == worst:
                                        tie = True
                        st["best_last_tie"] = tie
                        # digest of the lattice the selection was made from (labels are the same in a permuted map)
                        st["lattice_digest"] = jhash(sorted((repr(e.key), e.logprob, bool(e.stop)) for col in mt.lattice.values()
                                                            for layer in col.o for e in layer.values()))
                    except Exception as e:
                        st["best_last"] = {"exc": type(e).__name__}
                steps.append(st)
            else:
                steps.append({"res": res})
        monitors.run_history(mt, build.trace(case["trace"]), case["ops"], after=after)
        if last[0] is None:
            raise RuntimeError("no step of the history returned a result")
        c = build.canon(mt, last[0])
        c["steps"] = steps
        return mt, last[0], c
    r = mt.match(build.trace(case["trace"]), unique=case.get("unique", False))
    return mt, r, build.canon(mt, r)


def check_case(ctx, case):
    i = ctx.cases
    key = jhash(case)
    try:
        mt, r, c = run(case)
    except Exception as e:
        ctx.record(key, {"exc": f"{type(e).__name__}"})
        ctx.count("match_raised")
        return
    ctx.evaluated()
    ctx.record(key, {"canon": c})
    if os.environ.get("LMM_ENVSET", "0") != "0":
        return
    # statistics and the permutation clause only in the first process set
    if any(isinstance(l, str) for l, _ in case["map"]["nodes"]):
        ctx.count("string_label_cases")
    if case.get("diamond"):
        ctx.count("diamond_cases")
        if any(x.obs_ne for x in (mt.lattice_best or [])):
            ctx.count("diamond_cases_with_nonemitting_on_path")
    if case.get("fork"):
        ctx.count("symmetric_fork_cases")
    if case.get("linked_tie"):
        ctx.count("linked_tie_cases")
        if any(isinstance(l, str) for l, _ in case["map"]["nodes"]):
            ctx.count("linked_tie_cases_string_labels")
    if case.get("mirror"):
        ctx.count("mirror_loop_cases")
        if mt.lattice:
            for col in mt.lattice.values():
                for layer in col.o[1:]:
                    for e in layer.values():
                        if e.prev_other and any(abs(q.logprob - next(iter(e.prev)).logprob) == 0 for q in e.prev_other):
                            ctx.count("nonemitting_state_with_exactly_tied_predecessors")
    if not c["empty"]:
        col = mt.lattice[c["idx"]]
        livefinal = [x for x in col.values_all() if not x.stop]
        if len(livefinal) >= 2:
            ctx.count("cases_with_two_final_candidates")
            ctx.nontriv(key)
        if len(col.o) > 1 and any(len(l) for l in col.o[1:]):
            ctx.count("final_column_with_nonemitting_layer")
        lps = sorted((x.logprob for x in livefinal), reverse=True)
        if len(lps) >= 2 and lps[0] == lps[1]:
            ctx.count("exact_tie_in_final_column")
    prng = random.Random("perm:" + key)
    for _ in range(2):
        pc = permute(case, prng)
        try:
            mt2, r2, c2 = run(pc)
        except Exception:
            ctx.count("permuted_raised")
            continue
        ctx.count("permutations_judged")
        fam = case["cfg"]["family"]

        def report(kind, text):
            div = oracles.first_lattice_divergence(mt, mt2)
            mech = oracles.order_dependence_mechanism(case["cfg"], div)
            text += f" | first lattice divergence: {div}"
            if mech:
                ctx.violation(f"C10:permutation:order-dependent:{mech}", {"base": case, "permuted": pc}, f"{kind}: {text}")
            else:
                ctx.violation(f"C10:permutation:{kind}:{fam}", {"base": case, "permuted": pc}, text)
        if case.get("ops"):
            ctx.count("history_permutations_judged")
            if any(x.get("res") == "cwd" for x in c.get("steps", [])):
                ctx.count("history_permutations_with_continue_with_distance")
        bl_diff = None
        for s1, s2 in zip(c.get("steps", []), c2.get("steps", [])):
            b1, b2 = s1.get("best_last"), s2.get("best_last")
            if b1 is None or b2 is None:
                continue
            if s1.get("lattice_digest") != s2.get("lattice_digest"):
                # the lattices already differ (a choice among equally probable alternatives earlier on): the selections are
                # not comparable; the returned results still are, below
                ctx.count("best_last_matches_not_comparable_lattices_differ")
                continue
            ctx.count("best_last_matches_compared")
            if set(b1) != set(b2) or any(len(b1[o]) != len(b2[o]) or any(not oracles.close(x, y) for x, y in zip(b1[o], b2[o])) for o in b1 if o != "exc"):
                bl_diff = (b1, b2)
                break
        if bl_diff:
            ctx.violation(f"C10:permutation:best_last_matches-differ:{fam}", {"base": case, "permuted": pc},
                          f"the k best last matches (log-probabilities per observation) selected from IDENTICAL lattices depend on the listing order: {bl_diff[0]} vs {bl_diff[1]}")
            continue
        if any(s_.get("best_last_tie") for s_ in c.get("steps", []) + c2.get("steps", [])) and \
                any(x.get("res") == "cwd" for x in c.get("steps", [])):
            # continue_with_distance() started from "the k best last matches" where the k-th place was an exact tie: which of
            # the equally probable candidates is continued from is a choice among exactly equally probable alternatives
            if c["empty"] != c2["empty"] or c["idx"] != c2["idx"] or (not c["empty"] and not oracles.close(c["best"], c2["best"])):
                ctx.count("permutation_differs_after_tied_best_last_selection")
                continue
        if c["empty"] != c2["empty"] or c["idx"] != c2["idx"]:
            report("index-differs", f"idx {c['idx']} vs {c2['idx']}")
        elif not c["empty"]:
            if not oracles.close(c["best"], c2["best"]):
                report("best-probability-differs", f"{c['best']!r} vs {c2['best']!r}")
            elif [k for k, _ in c["path"]] != [k for k, _ in c2["path"]]:
                p1, p2 = c["path"][-1][1], c2["path"][-1][1]
                if oracles.tie_induced(c["path"], c2["path"]):
                    ctx.count("permutation_paths_differ_exact_tie")
                else:
                    report("path-differs-without-tie", f"{c['path'][-1]} vs {c2['path'][-1]}")
    ctx.sample(case)


def replay_case(ctx, case):
    """replay of a hash-seed witness: run the case in fresh interpreters with several hash seeds."""
    import subprocess
    import sys
    if "base" in case:
        return check_case(ctx, case["base"])
    outs = {}
    code = ("import sys, json; sys.path.insert(0, %r)\n"
            "from lmmverif.props import C10\n"
            "case = json.load(sys.stdin)\n"
            "try:\n    print(json.dumps(C10.run(case)[2], sort_keys=True))\nexcept Exception as e:\n    print('EXC', type(e).__name__)\n") % env.VERIF
    for hs in HASHSEEDS[:8]:
        e = dict(os.environ, PYTHONHASHSEED=hs, PYTHONPATH=env.VERIF, PYTHONWARNINGS="ignore")
        p = subprocess.run([sys.executable, "-c", code], input=json.dumps(case).encode(), env=e, capture_output=True, timeout=120)
        outs[hs] = p.stdout.decode().strip().splitlines()[-1] if p.stdout.strip() else "NO OUTPUT " + p.stderr.decode()[-200:]
    if len(set(outs.values())) > 1:
        vals = sorted(set(outs.values()))
        ctx.violation(signature_for(case, [json.loads(v) if v.startswith("{") else {"exc": v} for v in vals[:2]]), case,
                      f"results differ between hash seeds: {outs}")


def signature_for(case, variants):
    a, b = variants[0], variants[1]
    if "exc" in a or "exc" in b:
        return "C10:hashseed:raises-in-some-processes"
    ca, cb = a.get("canon", a), b.get("canon", b)
    if ca["empty"] != cb["empty"] or ca["idx"] != cb["idx"]:
        return "C10:hashseed:index-differs"
    ka, kb = [k for k, _ in ca["path"]], [k for k, _ in cb["path"]]
    if ka and kb and ka[-1] != kb[-1]:
        depth_a, depth_b = ka[-1][-1], kb[-1][-1]
        if depth_a != depth_b:
            return "C10:hashseed:final-state-differs:nonemitting-depth"
        return "C10:hashseed:final-state-differs:same-depth"
    if ka != kb:
        return "C10:hashseed:path-differs-before-final-state"
    return "C10:hashseed:probabilities-differ"


def finalize(fold):
    by_case = {}
    for r in fold["results"]:
        for key, v in r["records"].items():
            by_case.setdefault(key, {})[r["envset"]] = v
    nproc = len({r["envset"] for r in fold["results"]})
    compared = 0
    seed, tier = fold["seed"], fold["tier"]
    bad = []
    for key, per in by_case.items():
        if len(per) < nproc:
            continue
        compared += 1
        vals = {json.dumps(v, sort_keys=True) for v in per.values()}
        if len(vals) > 1:
            bad.append((key, per))
    fold["counters"]["cases_compared_across_processes"] = compared
    fold["counters"]["processes_per_case"] = nproc
    fold["counters"]["cases_differing_across_processes"] = len(bad)
    # only the first process set counts cases for `distinct`; evaluations are summed over all processes
    if bad:
        # regenerate the witnesses (generation is independent of the hash seed: no tightening, no set iteration)
        want = {k for k, _ in bad}
        found = {}
        for i in range(fold["ncases"]):
            case = gen_case(random.Random(f"C10:{seed}:{i}"), i, tier)
            k = jhash(case)
            if k in want:
                found[k] = case
                if len(found) == len(want):
                    break
        for key, per in bad:
            variants = [json.loads(s) for s in sorted({json.dumps(v, sort_keys=True) for v in per.values()})]
            case = found.get(key, {"unrecovered_case_hash": key})
            sig = signature_for(case, variants)
            fold["viol_counts"][sig] += 1
            if sum(1 for v in fold["violations"] if v["sig"] == sig) < 3:
                fold["violations"].append({"sig": sig, "case": case,
                                           "why": f"canonical results differ between processes with different PYTHONHASHSEED: "
                                                  f"{ {e: (v.get('canon') or v) for e, v in sorted(per.items())} }"[:1500]})


# determinism does not depend on the log level: a tenth of the cases runs with the package logger at DEBUG in every process
_dbg_gen, _dbg_chk = env.debug_dimension(0.1)
gen_case = _dbg_gen(gen_case)
check_case = _dbg_chk(check_case)

# no clause depends on the coordinate unit: 8 % of the planar cases are expressed in a small unit (everything x 2^-7..2^-17)
gen_case = mcase.scale_dimension(0.08)(gen_case)

TECHNIQUE = "runtime monitoring: recorded per-process result logs from interpreters with different PYTHONHASHSEED compared offline; in-process permutation differential"
LEVEL_TEXT = ("{Q} (quick) / {T} (thorough) cases, each executed in 4 / 12 fresh interpreters differing only in the string-hash seed; the per-case "
              "canonical results are logged and compared offline (identical required); plus two node/neighbour-order permutations per case "
              "(index and probability equal; path up to exact ties). Held-on-observed.")
LEVEL_NOTE = "Trusted: PYTHONHASHSEED is the only source of cross-process variation. A fixed list of 12 hash seeds is used."
