"""C09 The lattice stays well-formed under any sequence of operations.

Monitor shape: invariant at a hook.  After every public call of a generated operation history
(match / extend / widen / restart / continue-with-distance + expand) the complete live lattice
of the real matcher is walked at that quiescent point and every entry is checked.
"""
import logging

from .. import env
from .. import gen, build, mcase, monitors

ID = "C09"
CASES = {"quick": 16000, "thorough": 200000}
MIN_CASES_PER_SHARD = 40
CASE_TIMEOUT = 40
RULE = ("one case = generated map x trace x configuration (all families, non-emitting on/off, widths, avoid_goingback on/off, cut-offs incl. "
        "exact thresholds) x operation history of 1..9 public calls; 25 % of the cases run with the package logger at DEBUG (materialises "
        "stopped entries). Non-trivial = >= 2 operations after the first match and a lattice of >= 10 entries; distinct = hash of the case")
ANCHORS = [("leuvenmapmatching/matcher/base.py", "LatticeColumn.upsert"),
           ("leuvenmapmatching/matcher/base.py", "BaseMatching.update"),
           ("leuvenmapmatching/matcher/base.py", "BaseMatching._update_inner"),
           ("leuvenmapmatching/matcher/base.py", "LatticeColumn.set_delayed"),
           ("leuvenmapmatching/matcher/base.py", "BaseMatcher.increase_delayed"),
           ("leuvenmapmatching/matcher/base.py", "BaseMatcher.continue_with_distance"),
           ("leuvenmapmatching/matcher/base.py", "BaseMatcher.increase_max_lattice_width")]
FLOORS = {"operations": 4000, "entries_checked": 200000, "op:widen": 500, "op:extend": 500, "op:cwd_executed": 40, "op:match": 2000,
          "debug_histories": 300, "stopped_entries_seen": 500, "nonemitting_entries_seen": 5000, "replaced_entries_seen": 200}
ASSUMPTIONS = ["continue_with_distance is only issued after an early stop (its documented use); calls that raise are recorded and the lattice is still checked",
               "monotonicity tolerance 1e-12 relative"]


def gen_case(rng, i, tier):
    if i % 60 == 13:
        case = mcase.gen_large_mcase(rng)
        case["ops"] = gen.gen_history(rng, len(case["trace"]), case["cfg"]["width"], allow_cwd=True, max_ops=3)
        case["debug"] = False
        return case
    case = mcase.gen_mcase(rng, families=gen.FAMILIES_ALL, width="maybe", tighten_p=0.3, sparse_p=0.35, max_obs=9)
    n = len(case["trace"])
    case["ops"] = gen.gen_history(rng, n, case["cfg"]["width"], allow_cwd=True, max_ops=5)
    case["debug"] = rng.random() < 0.25
    if not case.get("large") and not case["map"].get("latlon"):
        gen.add_pre_trace(rng, case)
    return case


def check_case(ctx, case):
    if case.get("large"):
        ctx.count("large_map_cases")
    mp = build.make_inmem(case["map"])
    mt = build.make_matcher(mp, case["cfg"])
    tr = build.trace(case["trace"])
    if case.get("debug"):
        env.logger.setLevel(logging.DEBUG)
        ctx.count("debug_histories")
    nops = [0]
    maxn = [0]

    def after(i, op, res, exc):
        ctx.count("operations")
        nops[0] += 1
        if res == "cwd":
            ctx.count("op:cwd_executed")
        elif res != "cwd-skipped":
            ctx.count(f"op:{op['op']}")
        if exc is not None:
            ctx.count("op_raised")
        viol, n = monitors.lattice_violations(mt)
        ctx.evaluated()
        ctx.count("entries_checked", n)
        maxn[0] = max(maxn[0], n)
        if mt.lattice:
            for col in mt.lattice.values():
                for k, layer in enumerate(col.o):
                    for e in layer.values():
                        if e.stop:
                            ctx.count("stopped_entries_seen")
                        if k > 0:
                            ctx.count("nonemitting_entries_seen")
                        if e.prev_other:
                            ctx.count("replaced_entries_seen")
        seen = set()
        for kind, text in viol:
            if kind in seen:
                continue
            seen.add(kind)
            ctx.violation(f"C09:{kind}:after-{op['op']}", case, f"after operation #{i} {op}: {text}")
    try:
        monitors.run_history(mt, tr, case["ops"], after=after)
    finally:
        env.logger.setLevel(logging.ERROR)
    if nops[0] >= 3 and maxn[0] >= 10:
        ctx.nontriv(case)
    ctx.sample(case)


# no clause depends on the map backend: a tenth of the eligible cases (integer labels, no linked edges) runs on SqliteMap
_bk_gen, _bk_chk = build.backend_dimension(0.12)
gen_case = _bk_gen(gen_case)
check_case = _bk_chk(check_case)

# no clause depends on the coordinate unit: 8 % of the planar cases are expressed in a small unit (everything x 2^-7..2^-17)
gen_case = mcase.scale_dimension(0.08)(gen_case)

TECHNIQUE = "runtime monitoring: invariant-at-a-hook, the whole live lattice is walked after every public call of generated operation histories"
LEVEL_TEXT = ("{Q} (quick) / {T} (thorough) generated operation histories on real matchers; after each of the ~4 operations per history every "
              "lattice entry is checked for filing, predecessor identity and layer, monotone probability, length bookkeeping, probability range and "
              "liveness. Held-on-observed.")
LEVEL_NOTE = "Trusted: the walker. Histories have at most 9 operations on traces of at most 9 observations."
