"""C08 Incremental matching equals one-shot matching.

Monitor shape: differential monitor over operation histories: the same trace matched in one
call on a fresh matcher and in successive `match(..., expand=True)` extensions at every cut
(all cuts enumerated for short traces) on another matcher built from the same configuration.
"""
import itertools

from .. import env  # noqa: F401
from .. import gen, build, mcase, oracles, monitors
from ..mapmodel import MapModel

ID = "C08"
CASES = {"quick": 2000, "thorough": 60000}
MIN_CASES_PER_SHARD = 15
CASE_TIMEOUT = 120
RULE = ("one case = generated map x trace (2..8 observations; outliers, sparse chains so that non-emitting states bridge the split) x "
        "configuration (all families, non-emitting on/off, widths, avoid_goingback on/off, cut-offs) x cuts: every single split point, plus "
        "random multi-cuts (all 2^(n-1) cut sets when n <= 5). Non-trivial = an extension that truly continues a prefix run that ended "
        "exactly at the split; distinct = hash of (case, cut set)")
ANCHORS = [("leuvenmapmatching/matcher/base.py", "BaseMatcher.match"),
           ("leuvenmapmatching/matcher/base.py", "BaseMatcher._create_start_nodes"),
           ("leuvenmapmatching/matcher/base.py", "BaseMatcher._match_non_emitting_states"),
           ("leuvenmapmatching/matcher/base.py", "LatticeColumn.set_delayed")]
FLOORS = {"cut_sets_judged": 4000, "extensions_continuing_a_full_prefix": 4000, "extensions_after_early_stop": 200, "cuts_with_nonemitting_bridge": 400,
          "multi_cuts": 1200, "with_width": 1000, "paths_identical": 3000, "ne_filter_entries_compared_incremental": 3000}
ASSUMPTIONS = ["index and best probability must be equal (1e-9 rel); the best paths must be equal unless they are exact ties: when the paths differ, "
               "both are re-scored (C02 oracle) and a difference is a tie iff both totals are equal to 1e-12 relative",
               "both matchers are built from one configuration dict"]


def gen_case(rng, i, tier):
    case = mcase.gen_mcase(rng, families=gen.FAMILIES_ALL, width="maybe", tighten_p=0.2, sparse_p=0.4, max_obs=8)
    if len(case["trace"]) < 2:
        case["trace"] = case["trace"] + [[case["trace"][0][0] + 0.3, case["trace"][0][1] + 0.2]]
    n = len(case["trace"])
    cuts = [[k] for k in range(1, n)]
    if n <= 5:
        for r in range(2, n):
            cuts += [list(c) for c in itertools.combinations(range(1, n), r)]
    else:
        for _ in range(8):
            r = rng.randint(2, min(4, n - 1))
            c = sorted(rng.sample(range(1, n), r))
            if c not in cuts:
                cuts.append(c)
    case["cuts"] = cuts
    if rng.random() < 0.3:
        # the incremental matcher object is not new: it matched ANOTHER trace before (longer than the prefixes, or shorter,
        # often stopping early); incremental matching on it must still equal a one-shot match on a fresh matcher
        pre = gen.gen_trace(rng, case["map"], k=rng.choice([n + 2, n + 3, rng.randint(2, 7)]), kind=rng.choice(["walk", "walk", "outlier", "sparse"]))
        case["pre_trace"] = pre
    return case


def pathkeys(c):
    return [tuple(k) if isinstance(k, list) else k for k, _ in c["path"]]


def check_case(ctx, case):
    tr = build.trace(case["trace"])
    n = len(tr)
    cfg = case["cfg"]
    one = build.make_matcher(build.make_inmem(case["map"]), cfg)
    try:
        r1 = one.match(tr)
    except Exception:
        ctx.count("oneshot_raised")
        return
    c1 = build.canon(one, r1)
    fam = cfg["family"]
    model = MapModel(case["map"])
    for cut in case["cuts"]:
        mt = build.make_matcher(build.make_inmem(case["map"]), cfg)
        ks = list(cut) + [n]
        if case.get("pre_trace"):
            ctx.count("incremental_runs_on_a_reused_matcher")
            try:
                mt.match(build.trace(case["pre_trace"]))
            except Exception:
                pass
        try:
            r = mt.match(tr[:ks[0]])
            continuing = True
            for a, b in zip(ks, ks[1:]):
                full_prefix = bool(r[0]) and r[1] == a - 1
                if full_prefix:
                    ctx.count("extensions_continuing_a_full_prefix")
                    lb = mt.lattice_best
                else:
                    ctx.count("extensions_after_early_stop")
                    continuing = False
                r = mt.match(tr[:b], expand=True)
        except Exception as e:
            ctx.violation(f"C08:extension-raises-{type(e).__name__}:{fam}", {**case, "cuts": [cut]}, f"cut {cut}: {e!r}")
            continue
        c2 = build.canon(mt, r)
        ctx.evaluated()
        ctx.count("cut_sets_judged")
        if cfg["non_emitting"] and not cfg["width"]:
            # the incremental run must apply the same non-emitting filter as a one-shot run (search-space consistency)
            v, nn = monitors.ne_filter_violations(mt, any_round=True)
            ctx.count("ne_filter_entries_compared_incremental", nn)
            for kind, text in v[:1]:
                ctx.violation(f"C08:ne-filter:{kind}:incremental:{fam}", {**case, "cuts": [cut]}, f"cut {cut}: {text}")
        if len(cut) > 1:
            ctx.count("multi_cuts")
        if cfg["width"]:
            ctx.count("with_width")
        if continuing:
            ctx.nontriv([case["map"]["nodes"], case["trace"], cfg, cut])
        # does a non-emitting run bridge a split on the final path?
        for a, b in zip(mt.lattice_best or [], (mt.lattice_best or [])[1:]):
            if b.obs_ne != 0 and (a.obs + 1) in cut:
                ctx.count("cuts_with_nonemitting_bridge")
                break
        sub = {**case, "cuts": [cut]}
        mode = ("ne-on" if cfg["non_emitting"] else "ne-off") + (":width" if cfg["width"] else "") + (":second-order" if cfg["agb"] else "")
        if c1["empty"] != c2["empty"] or c1["idx"] != c2["idx"]:
            ctx.violation(f"C08:index-differs:{fam}:{mode}", sub, f"cut {cut}: one-shot idx {c1['idx']} empty {c1['empty']}, incremental idx {c2['idx']} empty {c2['empty']}")
            continue
        if c1["empty"]:
            continue
        if not oracles.close(c1["best"], c2["best"]):
            ctx.violation(f"C08:best-probability-differs:{fam}:{mode}", sub, f"cut {cut}: one-shot {c1['best']!r}, incremental {c2['best']!r}")
            continue
        if pathkeys(c1) == pathkeys(c2):
            ctx.count("paths_identical")
        else:
            p1, p2 = c1["path"][-1][1], c2["path"][-1][1]
            if abs(p1 - p2) <= 1e-12 * max(1.0, abs(p1)):
                ctx.count("paths_differ_exact_tie")
            else:
                ctx.violation(f"C08:path-differs:{fam}:{mode}", sub, f"cut {cut}: one-shot path {pathkeys(c1)} ({p1!r}) vs incremental {pathkeys(c2)} ({p2!r})")
    ctx.sample({**case, "cuts": case["cuts"][:3]})


# no result depends on the log level: a tenth of the cases runs with the package logger at DEBUG (replayable: the flag is
# part of the case / of the recorded witness)
_dbg_gen, _dbg_chk = env.debug_dimension(0.1)
gen_case = _dbg_gen(gen_case)
check_case = _dbg_chk(check_case)

# no clause depends on the map backend: a tenth of the eligible cases (integer labels, no linked edges) runs on SqliteMap
_bk_gen, _bk_chk = build.backend_dimension(0.12)
gen_case = _bk_gen(gen_case)
check_case = _bk_chk(check_case)

# no clause depends on the coordinate unit: 8 % of the planar cases are expressed in a small unit (everything x 2^-7..2^-17)
gen_case = mcase.scale_dimension(0.08)(gen_case)

TECHNIQUE = "runtime monitoring: differential monitor, one-shot run vs incremental extension histories at every cut of the trace"
LEVEL_TEXT = ("{Q} (quick) / {T} (thorough) traces x ~10 cut sets each (all single splits, all cut sets for n<=5): index, best probability and best "
              "path of the incremental history must equal the one-shot result (paths up to exact ties); extension-only runs without width are also held to the non-emitting filter invariant of C07 "
              "(the incremental search must apply the same filter as the one-shot search). Held-on-observed.")
LEVEL_NOTE = "Trusted: nothing beyond the executions. Traces <= 8 observations."
