"""C18 A stored map is the same map when opened again.

Monitor shape: history + model, with the SQLite connection's own transaction state as event
source.  A generated build history is applied to a real SqliteMap (or InMemMap + pickle) and to
a dict model; after every build operation the connection's `in_transaction` flag is read (a
committing operation must leave no open transaction); after 1-3 reopen cycles every attribute
and every query of a random query set is compared between the original object, the reopened
object and the model.
"""
import math
import os

from .. import env  # noqa: F401
from .. import gen, build, refgeo as rg
from ..mapmodel import MapModel
from leuvenmapmatching.map.inmem import InMemMap
from leuvenmapmatching.map.sqlite import SqliteMap

ID = "C18"
CASES = {"quick": 5000, "thorough": 60000}
MIN_CASES_PER_SHARD = 12
CASE_TIMEOUT = 60
RULE = ("one case = a build history of 4..25 operations (add_node / add_nodes / add_edge / add_edges with and without no_commit / no_index, "
        "explicit commit, reindex_nodes, reindex_edges, repeated add of an existing label with ignore_doubles) on a SqliteMap with a random metric flag and projection settings, followed by 1-3 "
        "reopen cycles (first connection closed or still open); or an InMemMap (graph, linked edges, metric flag, projection settings) dumped "
        "to a pickle and loaded 1-2 times. Non-trivial = >= 2 kinds of insert and a non-default metric flag (planar) ; distinct = hash of the history")
ANCHORS = [("leuvenmapmatching/map/sqlite.py", "SqliteMap.read_properties"),
           ("leuvenmapmatching/map/sqlite.py", "SqliteMap.save_properties"),
           ("leuvenmapmatching/map/sqlite.py", "SqliteMap.from_file"),
           ("leuvenmapmatching/map/sqlite.py", "SqliteMap.add_node"),
           ("leuvenmapmatching/map/sqlite.py", "SqliteMap.add_edge"),
           ("leuvenmapmatching/map/sqlite.py", "SqliteMap.add_edges"),
           ("leuvenmapmatching/map/sqlite.py", "SqliteMap.reindex_nodes"),
           ("leuvenmapmatching/map/sqlite.py", "SqliteMap.reindex_edges"),
           ("leuvenmapmatching/map/inmem.py", "InMemMap.serialize"),
           ("leuvenmapmatching/map/inmem.py", "InMemMap.deserialize"),
           ("leuvenmapmatching/map/base.py", "BaseMap.use_latlon")]
FLOORS = {"reopen_cycles:planar": 100, "reopen_cycles:latlon": 80, "deferred_commit_histories": 50, "deferred_index_histories": 50,
          "committing_ops_checked": 1500, "reindex_checked": 100, "pickle_cycles": 60, "queries_compared": 4000,
          "reopen_with_first_connection_open": 40, "repeated_node_adds": 100, "debug_level_histories": 300, "linked_after_reopen": 300, "settings_changed_and_saved": 300, "linked_after_reopen_with_links": 30}
ASSUMPTIONS = ["a history that used no_commit ends with an explicit db.commit() before the map is reopened (the documented contract: "
               "'remember to commit later'); histories that used no_index end with the matching reindex_* call in 85 % of the cases, "
               "otherwise only original-vs-reopened (not the model) is compared on index-backed listings",
               "files live in a per-shard scratch directory outside /repo and /verif, removed afterwards"]


def gen_case(rng, i, tier):
    if rng.random() < 0.2:
        return gen_pickle_case(rng)
    latlon = rng.random() < 0.4
    n = rng.randint(2, 10)
    if latlon:
        base = (rng.uniform(-60, 60), rng.uniform(-170, 170))
        pts = rg.ae_place(base, [(rng.uniform(0, 300), rng.uniform(0, 300)) for _ in range(n)])
    else:
        big = rng.random() < 0.3
        off = (5e6, 1e7) if big else (0.0, 0.0)
        pts = [(off[0] + rng.uniform(0, 10), off[1] + rng.uniform(0, 30)) for _ in range(n)]
    labels = list(range(n))
    edges = []
    for _ in range(rng.randint(1, 2 * n)):
        a, b = rng.sample(labels, 2)
        if (a, b) not in edges:
            edges.append((a, b))
    ops = []
    pend_nodes = list(labels)
    rng.shuffle(pend_nodes)
    pend_edges = list(edges)
    added = set()
    used_no_commit = used_no_index_n = used_no_index_e = False
    while pend_nodes or pend_edges:
        r = rng.random()
        if pend_nodes and (r < 0.45 or not [e for e in pend_edges]):
            if rng.random() < 0.4:
                k = rng.randint(1, len(pend_nodes))
                chunk, pend_nodes = pend_nodes[:k], pend_nodes[k:]
                ops.append({"op": "add_nodes", "nodes": [[l, list(pts[l])] for l in chunk]})
                added.update(chunk)
            else:
                l = pend_nodes.pop(0)
                no_index, no_commit = rng.random() < 0.25, rng.random() < 0.3
                used_no_commit |= no_commit
                used_no_index_n |= no_index
                ops.append({"op": "add_node", "node": l, "loc": list(pts[l]), "no_index": no_index, "no_commit": no_commit})
                added.add(l)
        elif pend_edges:
            ready = [e for e in pend_edges if e[0] in added and e[1] in added]
            if not ready:
                if pend_nodes:
                    continue
                ready = pend_edges
            if rng.random() < 0.4:
                k = rng.randint(1, len(ready))
                chunk = ready[:k]
                no_index = rng.random() < 0.3
                used_no_index_e |= no_index
                ops.append({"op": "add_edges", "edges": [list(e) for e in chunk], "no_index": no_index})
            else:
                chunk = [ready[0]]
                no_index, no_commit = rng.random() < 0.25, rng.random() < 0.3
                used_no_commit |= no_commit
                used_no_index_e |= no_index
                ops.append({"op": "add_edge", "edge": list(chunk[0]), "no_index": no_index, "no_commit": no_commit,
                            "with_locs": rng.random() < 0.3})
            for e in chunk:
                pend_edges.remove(e)
        if rng.random() < 0.08:
            ops.append({"op": rng.choice(["commit", "reindex_nodes", "reindex_edges"])})
        if added and rng.random() < 0.06:
            # a label added again with ignore_doubles=True (OSM ways share nodes): ignored, the first location stays
            l = rng.choice(sorted(added))
            loc = list(pts[l]) if rng.random() < 0.5 else [pts[l][0] + 1.0, pts[l][1] - 2.0]
            nc = rng.random() < 0.3
            used_no_commit |= nc
            ops.append({"op": "add_node_again", "node": l, "loc": loc, "no_commit": nc})
    reindexed = True
    if used_no_index_n or used_no_index_e:
        if rng.random() < 0.85:
            if used_no_index_n:
                ops.append({"op": "reindex_nodes"})
            # an edge added while one of its nodes was only in the nodes table is indexed by reindex_edges
            ops.append({"op": "reindex_edges"})
        else:
            reindexed = False
    if used_no_commit:
        ops.append({"op": "commit"})
    if rng.random() < 0.2:
        # settings changed on the live map and stored with the public save_properties(): the file must hand back the LAST state
        newcrs = rng.choice([["EPSG:4326", "EPSG:31370"], ["EPSG:4258", "EPSG:3035"], ["EPSG:4326", "EPSG:3395"]])
        ops.insert(rng.randint(0, len(ops)), {"op": "set_props", "crs": newcrs, "to_planar": bool(latlon and rng.random() < 0.3)})
    crs = rng.choice([None, None, ["EPSG:4326", "EPSG:31370"], ["EPSG:4258", "EPSG:3395"]])
    queries = []
    for _ in range(3):
        c = rng.choice(pts)
        r = rng.choice([50.0, 150.0, 1000.0]) if latlon else rng.choice([1.0, 5.0, 50.0])
        if latlon:
            loc = rg.gc_dest(c, rng.uniform(0, 360), rng.uniform(0, 100))
        else:
            loc = (c[0] + rng.uniform(-3, 3), c[1] + rng.uniform(-3, 3))
        queries.append({"loc": list(loc), "r": r})
    return {"backend": "sqlite", "latlon": latlon, "nodes": [[l, list(pts[l])] for l in labels], "edges": [list(e) for e in edges],
            "ops": ops, "crs": crs, "cycles": rng.choice([1, 1, 2, 3]), "keep_open": rng.random() < 0.35,
            "reindexed": reindexed, "queries": queries,
            "flags": {"no_commit": used_no_commit, "no_index": used_no_index_n or used_no_index_e}}


def gen_pickle_case(rng):
    latlon = rng.random() < 0.5
    m = gen.gen_map(rng, kinds=("random", "grid", "chain"), labels=("int", "str", "gap"), hostile=True)
    if latlon:
        base = (rng.uniform(-60, 60), rng.uniform(-170, 170))
        labs = [l for l, _ in m["nodes"]]
        ll = rg.ae_place(base, [(p[0] * 30, p[1] * 30) for _, p in m["nodes"]])
        m["nodes"] = [[l, [q[0], q[1]]] for l, q in zip(labs, ll)]
        m["latlon"] = True
    es = gen.real_edges(m)
    if len(es) >= 2 and rng.random() < 0.5:
        a, b = rng.sample(es, 2)
        m["linked"] = [[list(a), list(b)]]
    c = gen.coords(m)
    queries = []
    for _ in range(3):
        p = rng.choice(list(c.values()))
        if latlon:
            queries.append({"loc": list(rg.gc_dest(p, rng.uniform(0, 360), rng.uniform(0, 30))), "r": rng.choice([20.0, 60.0, 500.0])})
        else:
            queries.append({"loc": [p[0] + rng.uniform(-1, 1), p[1] + rng.uniform(-1, 1)], "r": rng.choice([0.5, 2.0, 10.0])})
    return {"backend": "pickle", "latlon": latlon, "map": m, "crs": rng.choice([None, ["EPSG:4326", "EPSG:31370"]]),
            "cycles": rng.choice([1, 2]), "queries": queries}


def snapshot(mp, model_labels, edges, queries):
    """every observable of a map that the property talks about."""
    snap = {}
    snap["use_latlon"] = mp.use_latlon
    snap["distance_module"] = mp.distance.__module__.rsplit(".", 1)[-1]
    snap["pt_seg_module"] = mp.distance_point_to_segment.__module__.rsplit(".", 1)[-1]
    snap["seg_seg_module"] = mp.distance_segment_to_segment.__module__.rsplit(".", 1)[-1]
    snap["box_module"] = mp.box_around_point.__module__.rsplit(".", 1)[-1]
    # every function the map object binds from the geometry libraries (by attribute, so that one added later is covered too)
    for k, v in sorted(vars(mp).items()):
        if callable(v) and str(getattr(v, "__module__", "")).startswith("leuvenmapmatching.util"):
            snap[f"bound:{k}"] = v.__module__.rsplit(".", 1)[-1] + "." + getattr(v, "__name__", "?")
    snap["crs_lonlat"] = mp.crs_lonlat
    snap["crs_xy"] = mp.crs_xy
    snap["size"] = mp.size()
    snap["labels"] = sorted(mp.labels(), key=repr)
    snap["all_nodes"] = sorted(((l, tuple(p)) for l, p in mp.all_nodes()), key=repr)
    snap["all_edges"] = sorted(((a, tuple(p), b, tuple(q)) for a, p, b, q in mp.all_edges()), key=repr)
    snap["nodes_nbrto"] = {repr(l): sorted(((x, tuple(p)) for x, p in mp.nodes_nbrto(l)), key=repr) for l in model_labels}
    snap["edges_nbrto"] = {repr(e): sorted(((a, tuple(p), b, tuple(q)) for a, p, b, q in mp.edges_nbrto(e)), key=repr) for e in edges}
    try:
        snap["bb"] = tuple(mp.bb())
    except Exception as e:
        snap["bb"] = f"raises {type(e).__name__}"
    for k, q in enumerate(queries):
        loc, r = tuple(q["loc"]), q["r"]
        for kind in ("nodes", "edges"):
            fn = mp.nodes_closeto if kind == "nodes" else mp.edges_closeto
            try:
                snap[f"{kind}_closeto#{k}"] = [tuple(tuple(x) if isinstance(x, (list, tuple)) else x for x in it) for it in fn(loc, max_dist=r)]
            except Exception as e:
                snap[f"{kind}_closeto#{k}"] = f"raises {type(e).__name__}: {e}"
    return snap


def diff_snap(a, b):
    return [k for k in a if a[k] != b.get(k)]


def check_sqlite(ctx, case):
    latlon = case["latlon"]
    kw = {}
    if case["crs"]:
        kw = {"crs_lonlat": case["crs"][0], "crs_xy": case["crs"][1]}
    name = f"c18_{os.getpid()}_{ctx.cases}"
    sm = SqliteMap(name, use_latlon=latlon, dir=ctx.scratch, **kw)
    fn = str(sm.db_fn)
    handles = [sm]
    kinds = set()
    crs_now = list(case["crs"]) if case["crs"] else ["EPSG:4326", "EPSG:3395"]
    try:
        for op in case["ops"]:
            o = op["op"]
            kinds.add(o)
            committing = True
            try:
                if o == "add_node":
                    sm.add_node(op["node"], tuple(op["loc"]), no_index=op["no_index"], no_commit=op["no_commit"])
                    committing = not op["no_commit"]
                elif o == "add_node_again":
                    sm.add_node(op["node"], tuple(op["loc"]), ignore_doubles=True, no_commit=op["no_commit"])
                    committing = not op["no_commit"]
                    ctx.count("repeated_node_adds")
                elif o == "add_nodes":
                    sm.add_nodes([(l, tuple(p)) for l, p in op["nodes"]])
                elif o == "add_edge":
                    locs = {}
                    if op.get("with_locs"):
                        cd = dict((l, tuple(p)) for l, p in case["nodes"])
                        locs = {"loc_a": cd[op["edge"][0]], "loc_b": cd[op["edge"][1]]}
                    sm.add_edge(op["edge"][0], op["edge"][1], no_index=op["no_index"], no_commit=op["no_commit"], **locs)
                    committing = not op["no_commit"]
                elif o == "add_edges":
                    sm.add_edges([tuple(e) for e in op["edges"]], no_index=op["no_index"])
                elif o == "set_props":
                    sm.crs_lonlat, sm.crs_xy = op["crs"]
                    if op.get("to_planar"):
                        sm.use_latlon = False
                        latlon = False
                    sm.save_properties()
                    crs_now = list(op["crs"])
                    ctx.count("settings_changed_and_saved")
                elif o == "commit":
                    sm.db.commit()
                elif o == "reindex_nodes":
                    sm.reindex_nodes()
                elif o == "reindex_edges":
                    sm.reindex_edges()
            except Exception as e:
                ctx.violation(f"C18:sqlite:build-op-raises:{o}:{type(e).__name__}", case, f"{op}: {e!r}")
                return
            if committing:
                ctx.count("committing_ops_checked")
                if sm.db.in_transaction:
                    ctx.violation(f"C18:sqlite:transaction-left-open-by-committing-op:{o}", case, f"after {op} the connection is still in a transaction")
            if o in ("reindex_nodes", "reindex_edges"):
                ctx.count("reindex_checked")
                c = sm.db.cursor()
                if o == "reindex_nodes":
                    a = c.execute("SELECT count(*) FROM nodes_index").fetchone()[0]
                    b = c.execute("SELECT count(*) FROM nodes").fetchone()[0]
                else:
                    a = c.execute("SELECT count(*) FROM edges_index").fetchone()[0]
                    b = c.execute("SELECT count(*) FROM edges e INNER JOIN nodes n1 ON n1.id = e.id1 INNER JOIN nodes n2 ON n2.id = e.id2").fetchone()[0]
                if a != b:
                    ctx.violation(f"C18:sqlite:index-row-count-after-{o}", case, f"index has {a} rows, table has {b}")
        if case["flags"]["no_commit"]:
            ctx.count("deferred_commit_histories")
        if case["flags"]["no_index"]:
            ctx.count("deferred_index_histories")
        spec = {"nodes": case["nodes"], "edges": case["edges"], "latlon": latlon}
        model = MapModel(spec)
        labels = sorted(model.coords)
        orig = snapshot(sm, labels, model.edges, case["queries"])
        # the original against the model
        exp = {"use_latlon": latlon, "distance_module": "dist_latlon" if latlon else "dist_euclidean",
               "crs_lonlat": crs_now[0], "crs_xy": crs_now[1],
               "size": len(labels), "labels": sorted(labels, key=repr)}
        if case["reindexed"]:
            exp["all_nodes"] = sorted(((l, model.coords[l]) for l in labels), key=repr)
            exp["all_edges"] = sorted(((a, model.coords[a], b, model.coords[b]) for a, b in model.edges), key=repr)
        for k, v in exp.items():
            if orig[k] != v:
                ctx.violation(f"C18:sqlite:original-differs-from-model:{k}", case, f"{k}: {str(orig[k])[:300]} expected {str(v)[:300]}")
        if not case["keep_open"]:
            sm.db.close()
        else:
            ctx.count("reopen_with_first_connection_open")
        prev = sm
        for cyc in range(case["cycles"]):
            try:
                m2 = SqliteMap.from_file(fn)
            except Exception as e:
                ctx.violation(f"C18:sqlite:reopen-raises:{type(e).__name__}", case, f"cycle {cyc}: {e!r}")
                return
            handles.append(m2)
            ctx.count(f"reopen_cycles:{'latlon' if latlon else 'planar'}")
            ctx.evaluated()
            snap = snapshot(m2, labels, model.edges, case["queries"])
            ctx.count("queries_compared", len(snap))
            for k in diff_snap(orig, snap):
                ctx.violation(f"C18:sqlite:reopened-differs:{k.split('#')[0]}", case,
                              f"cycle {cyc + 1}: {k}: original {str(orig[k])[:300]} reopened {str(snap[k])[:300]}")
            if m2.db.in_transaction:
                ctx.violation("C18:sqlite:transaction-left-open-by-open", case, f"cycle {cyc + 1}")
            if cyc < case["cycles"] - 1 and not (case["keep_open"] and cyc % 2 == 0):
                m2.db.close()
        # the reopened map is USED: parallel roads are linked on it and on a freshly built sibling holding the same map
        if case["reindexed"] and len(case["ops"]) % 3 == 0 and handles[-1] is not sm and model.edges:
            m2 = handles[-1]
            dist = (60.0 if latlon else 2.0)
            sib = SqliteMap(name + "_sib", use_latlon=latlon, dir=ctx.scratch, **kw)
            handles.append(sib)
            try:
                sib.add_nodes([(l, model.coords[l]) for l in labels])
                sib.add_edges([e for e in model.edges])
                sib.connect_parallelroads(dist=dist)
                m2.connect_parallelroads(dist=dist)
                ctx.count("linked_after_reopen")
                a = {repr(e): sorted(((x, tuple(p), y, tuple(q)) for x, p, y, q in sib.edges_nbrto(e)), key=repr) for e in model.edges}
                b = {repr(e): sorted(((x, tuple(p), y, tuple(q)) for x, p, y, q in m2.edges_nbrto(e)), key=repr) for e in model.edges}
                if any(len(v) > len([1 for y in model.out_nbrs(eval(k)[1])]) for k, v in a.items()):
                    ctx.count("linked_after_reopen_with_links")
                if a != b:
                    k = next(k for k in a if a[k] != b[k])
                    ctx.violation("C18:sqlite:reopened-map-links-parallel-roads-differently", case,
                                  f"connect_parallelroads({dist}) on the reopened map vs on a freshly built map: edges_nbrto({k}) {str(b[k])[:300]} vs {str(a[k])[:300]}")
            finally:
                try:
                    sib.db.close()
                    os.unlink(str(sib.db_fn))
                except Exception:
                    pass
        if len(kinds & {"add_node", "add_nodes", "add_edge", "add_edges"}) >= 2 and not latlon:
            ctx.nontriv(case["ops"])
        ctx.sample({"backend": "sqlite", "latlon": latlon, "ops": case["ops"][:8], "cycles": case["cycles"], "keep_open": case["keep_open"]})
    finally:
        for h in handles:
            try:
                h.db.close()
            except Exception:
                pass
        try:
            os.unlink(fn)
        except OSError:
            pass


def check_pickle(ctx, case):
    m = case["map"]
    latlon = case["latlon"]
    graph = {l: ((p[0], p[1]), list(n)) for l, (p, n) in gen.graph_dict(m).items()}
    linked = None
    if m.get("linked"):
        linked = {}
        for (a, b), (c, d) in m["linked"]:
            linked.setdefault((a, b), set()).add((c, d))
    kw = {}
    if case["crs"]:
        kw = {"crs_lonlat": case["crs"][0], "crs_xy": case["crs"][1]}
    name = f"c18pk_{os.getpid()}_{ctx.cases}"
    im = InMemMap(name, graph=graph, use_latlon=latlon, dir=ctx.scratch, linked_edges=linked, **kw)
    model = MapModel(m)
    labels = sorted(model.coords, key=repr)
    fn = os.path.join(ctx.scratch, name + ".pkl")
    try:
        orig = snapshot(im, labels, model.edges, case["queries"])
        orig["linked_edges"] = im.linked_edges
        orig["graph"] = {repr(k): v for k, v in im.graph.items()}
        cur = im
        for cyc in range(case["cycles"]):
            cur.dump()
            try:
                m2 = InMemMap.from_pickle(fn)
            except Exception as e:
                ctx.violation(f"C18:pickle:load-raises:{type(e).__name__}", case, repr(e))
                return
            ctx.count("pickle_cycles")
            ctx.evaluated()
            snap = snapshot(m2, labels, model.edges, case["queries"])
            snap["linked_edges"] = m2.linked_edges
            snap["graph"] = {repr(k): v for k, v in m2.graph.items()}
            ctx.count("queries_compared", len(snap))
            for k in diff_snap(orig, snap):
                ctx.violation(f"C18:pickle:reloaded-differs:{k.split('#')[0]}", case,
                              f"cycle {cyc + 1}: {k}: original {str(orig[k])[:300]} reloaded {str(snap[k])[:300]}")
            cur = m2
        if not latlon:
            ctx.nontriv([m["nodes"], m["edges"], "pickle"])
    finally:
        try:
            os.unlink(fn)
        except OSError:
            pass


def check_case(ctx, case):
    # persistence does not depend on the log level: every 5th history is built, reopened and queried at DEBUG
    dbg = (sum(len(str(x)) for x in case.get("nodes", case.get("map", {}).get("nodes", []))) % 5) == 0
    if dbg:
        ctx.count("debug_level_histories")
    with env.debug_level(dbg):
        if case["backend"] == "sqlite":
            check_sqlite(ctx, case)
        else:
            check_pickle(ctx, case)


TECHNIQUE = "runtime monitoring: build history applied to the real map and to a model; transaction-state hook after every operation; differential comparison original / reopened / model"
LEVEL_TEXT = ("{Q} (quick) / {T} (thorough) generated build histories (single/bulk inserts, deferred commit and index, re-indexing, both metric "
              "flags, custom projection settings) with 1-3 reopen cycles, plus InMemMap pickle cycles; after every committing operation the "
              "connection's transaction flag is checked, after reopening every attribute, bound distance function and query answer is compared. "
              "Held-on-observed.")
LEVEL_NOTE = "Trusted: sqlite3, pickle, the model. Crash points (process killed mid-history) are not explored: the property quantifies over histories, not crashes."
