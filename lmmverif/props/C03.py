"""C03 Result is aligned with the observations and the last index is truthful.

Monitor shape: oracle over the returned value and the live lattice after every public matcher
call (match / extend / widen), computed independently of the matcher's own early-stop bookkeeping.
"""
import logging

from .. import env
from .. import gen, build, mcase, monitors, oracles

ID = "C03"
CASES = {"quick": 10000, "thorough": 300000}
MIN_CASES_PER_SHARD = 50
CASE_TIMEOUT = 40
RULE = ("one case = generated map x trace (length 1, 2, 3..; outliers at the first, second and last position; gaps; repeats) x configuration "
        "(all families, non-emitting on/off, widths, cut-offs incl. exact thresholds) x history of match/extend/widen calls with both values "
        "of `unique`; 20 % at DEBUG log level. Non-trivial = a result with >= 2 states; distinct = distinct (case) hash; shapes (trace length, "
        "index, early/complete, unique) are counted separately")
ANCHORS = [("leuvenmapmatching/matcher/base.py", "BaseMatcher.match"),
           ("leuvenmapmatching/matcher/base.py", "BaseMatcher._build_node_path"),
           ("leuvenmapmatching/matcher/base.py", "BaseMatcher._build_matching_path"),
           ("leuvenmapmatching/matcher/base.py", "BaseMatcher._match_non_emitting_states")]
FLOORS = {"results_judged": 5000, "early_stop_results": 300, "empty_results": 100, "unique_true": 1500, "unique_false": 1500,
          "complete_results": 1500, "length_one_traces": 80, "results_with_trailing_nonemitting": 5, "debug_results": 500,
          "early_stop_at_first_observation": 40}
ASSUMPTIONS = ["trailing non-emitting states after the last emitting state are accepted (documented behaviour of early stops, _build_node_path doc-string)"]


def gen_case(rng, i, tier):
    if i % 60 == 13:
        case = mcase.gen_large_mcase(rng)
        case["ops"] = gen.gen_history(rng, len(case["trace"]), case["cfg"]["width"], allow_cwd=False, max_ops=2)
        case["debug"] = False
        return case
    case = mcase.gen_mcase(rng, families=gen.FAMILIES_ALL, width="maybe", tighten_p=0.35, sparse_p=0.2, max_obs=9)
    tr = case["trace"]
    r = rng.random()
    if r < 0.12:
        case["trace"] = tr[:1]
    elif r < 0.45 and len(tr) >= 2:
        j = rng.choice([0, 1, len(tr) - 1, rng.randrange(len(tr))])
        case["trace"][j] = [tr[j][0] + rng.choice([-7.0, 7.0, 3.0]), tr[j][1] + rng.choice([0.0, 5.0])]
    case["ops"] = gen.gen_history(rng, len(case["trace"]), case["cfg"]["width"], allow_cwd=False, max_ops=3)
    case["debug"] = rng.random() < 0.2
    if not case.get("large") and not case["map"].get("latlon"):
        gen.add_pre_trace(rng, case)
    return case


def check_case(ctx, case):
    if case.get("large"):
        ctx.count("large_map_cases")
    mp = build.make_inmem(case["map"])
    mt = build.make_matcher(mp, case["cfg"])
    tr = build.trace(case["trace"])
    if case.get("debug"):
        env.logger.setLevel(logging.DEBUG)
    nontriv = [False]

    def after(i, op, res, exc):
        if exc is not None:
            ctx.count("op_raised")
            return
        n = len(mt.path)
        ctx.evaluated()
        ctx.count("results_judged")
        if case.get("debug"):
            ctx.count("debug_results")
        uq = op.get("unique", False)
        ctx.count("unique_true" if uq else "unique_false")
        states, idx = res if isinstance(res, tuple) and len(res) == 2 else (None, None)
        if states == []:
            ctx.count("empty_results")
        elif states:
            if idx == n - 1:
                ctx.count("complete_results")
            else:
                ctx.count("early_stop_results")
                if idx == 0:
                    ctx.count("early_stop_at_first_observation")
            if len(states) >= 2:
                nontriv[0] = True
            if mt.lattice_best and mt.lattice_best[-1].obs_ne != 0:
                ctx.count("results_with_trailing_nonemitting")
            ctx.nontriv(f"shape:{n}:{idx}:{uq}")
        if n == 1:
            ctx.count("length_one_traces")
        for kind, text in oracles.alignment(mt, res, uq, n):
            lvl = "debug" if case.get("debug") else "default"
            ctx.violation(f"C03:{kind}:loglevel-{lvl}", case, f"after operation #{i} {op}: {text}")
        # the matcher's own bookkeeping, additionally
        if states and mt.early_stop_idx is not None and mt.early_stop_idx - 1 != idx:
            ctx.violation("C03:early_stop_idx-inconsistent-with-returned-index", case, f"early_stop_idx {mt.early_stop_idx}, returned {idx}")
    try:
        monitors.run_history(mt, tr, case["ops"], after=after)
    finally:
        env.logger.setLevel(logging.ERROR)
    if nontriv[0]:
        ctx.nontriv(case)
    ctx.sample(case)


# no clause depends on the map backend: a tenth of the eligible cases (integer labels, no linked edges) runs on SqliteMap
_bk_gen, _bk_chk = build.backend_dimension(0.12)
gen_case = _bk_gen(gen_case)
check_case = _bk_chk(check_case)

# no clause depends on the coordinate unit: 8 % of the planar cases are expressed in a small unit (everything x 2^-7..2^-17)
gen_case = mcase.scale_dimension(0.08)(gen_case)

TECHNIQUE = "runtime monitoring: oracle over the returned (states, index) pair and the live lattice after every public call of generated histories"
LEVEL_TEXT = ("{Q} (quick) / {T} (thorough) histories, ~2.5 judged results each: alignment of the best path with the observations, one emitting state per "
              "matched observation, returned list = path keys (collapsed iff unique), index = last column with a live emitting entry, empty result iff "
              "no admissible first candidate. Held-on-observed.")
LEVEL_NOTE = "Trusted: the lattice reading (stop flags, layers). Traces <= 9 observations."
