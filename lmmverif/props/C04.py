"""C04 The matched sequence is a walk in the road graph.

Monitor shape: oracle over the reported best path after every public call, with adjacency taken
from the raw graph of the case (for SqliteMap: from the inserted edge list), never from the
map's own neighbour queries.
"""
from .. import env  # noqa: F401
from .. import gen, build, mcase, monitors, oracles
from ..mapmodel import MapModel

ID = "C04"
CASES = {"quick": 10000, "thorough": 300000}
MIN_CASES_PER_SHARD = 50
CASE_TIMEOUT = 60
RULE = ("one case = generated map (one-way streets, dead ends, self-listed neighbours, zero-length roads; 15 % with linked parallel edges; 15 % "
        "loaded in SqliteMap; 8 % a hostile class with two edges ending in one node of which only one is linked to a distant edge) x trace x configuration (all families, non-emitting on in 60 %, widths) x history of match/extend/widen calls (10 % "
        "with continue_with_distance, where only state existence is judged). Non-trivial = best path visiting >= 3 distinct states; distinct = "
        "hash of the case")
ANCHORS = [("leuvenmapmatching/matcher/base.py", "BaseMatcher._match_states"),
           ("leuvenmapmatching/matcher/base.py", "BaseMatcher._match_non_emitting_states_inner"),
           ("leuvenmapmatching/matcher/base.py", "BaseMatcher._match_non_emitting_states_end"),
           ("leuvenmapmatching/matcher/base.py", "BaseMatcher._node_in_prev_ne"),
           ("leuvenmapmatching/matcher/base.py", "BaseMatcher.node_path_to_only_nodes"),
           ("leuvenmapmatching/map/inmem.py", "InMemMap.nodes_nbrto"),
           ("leuvenmapmatching/map/inmem.py", "InMemMap.edges_nbrto"),
           ("leuvenmapmatching/map/sqlite.py", "SqliteMap.nodes_nbrto"),
           ("leuvenmapmatching/map/sqlite.py", "SqliteMap.edges_nbrto")]
FLOORS = {"consecutive_pairs": 6000, "pairs_inside_nonemitting_runs": 700, "paths_judged": 4000, "nodes_only_views": 3000, "linked_edge_maps": 200,
          "sqlite_maps": 200, "oneway_maps": 800, "selfloop_maps": 300, "uturn_moves": 100, "linked_moves": 5, "lattice_links_scanned": 100000, "shared_end_linked_cases": 300, "shared_end_cases_using_the_linked_move": 50, "rebuilt_sqlite_maps_with_stale_links": 100, "sqlite_maps_with_self_listed_node": 80, "sqlite_parked_at_self_listed_node": 40}
ASSUMPTIONS = ["after continue_with_distance (a jump operation) only the existence of the states is judged, as the property states"]


def gen_shared_end_case(rng):
    """hostile class for linked parallel edges: two edges (A,B) and (C,B) END in the same node, only one of them is linked to a
    distant edge (P,Q); both are reached at the same non-emitting depth from the start, and the next observation lies on (P,Q).
    A successor list that is computed per end node instead of per edge offers (C,B) -> (P,Q), which the map does not."""
    j = lambda v: v + rng.uniform(-0.15, 0.15)
    pts = {"S": (0.0, 0.0), "A": (1.0, 1.0), "C": (1.0, -1.0), "B": (2.0, 0.0), "E": (3.0, 0.0),
           "P": (rng.choice([2.2, 2.6, 3.0]), rng.choice([2.0, 2.5, -2.0, -2.5])), "T": (-1.0, 0.0)}
    pts["Q"] = (pts["P"][0] + 1.0, pts["P"][1])
    pts["R"] = (pts["Q"][0] + 1.0, pts["Q"][1])
    names = list(pts)
    lab = dict(zip(names, rng.sample(range(10, 99), len(names))))
    if rng.random() < 0.3:
        lab = {k: "n%d" % v for k, v in lab.items()}
    und = [("T", "S"), ("S", "A"), ("S", "C"), ("A", "B"), ("C", "B"), ("B", "E"), ("P", "Q"), ("Q", "R")]
    edges = []
    for a, b in und:
        edges.append([lab[a], lab[b]])
        if rng.random() < 0.35:
            edges.append([lab[b], lab[a]])
    rng.shuffle(edges)
    nodes = [[lab[k], [j(v[0]), j(v[1])]] for k, v in pts.items()]
    rng.shuffle(nodes)
    first, second = ("A", "C") if rng.random() < 0.5 else ("C", "A")
    linked = [[[lab[first], lab["B"]], [lab["P"], lab["Q"]]]]
    if rng.random() < 0.4:
        linked.append([[lab["P"], lab["Q"]], [lab[first], lab["B"]]])
    m = {"nodes": nodes, "edges": edges, "latlon": False, "kind": "shared_end_linked", "linked": linked}
    c = {k: v for k, v in ((n[0], n[1]) for n in nodes)}
    # start near S, biased towards the route that is NOT linked (so that it carries the better probability)
    s0, tgt = c[lab["S"]], c[lab[second]]
    t0 = rng.choice([0.1, 0.25, 0.4])
    o0 = [s0[0] + t0 * (tgt[0] - s0[0]), s0[1] + t0 * (tgt[1] - s0[1])]
    pq = [(c[lab["P"]][0] + c[lab["Q"]][0]) / 2 + rng.uniform(-0.2, 0.2), (c[lab["P"]][1] + c[lab["Q"]][1]) / 2 + rng.uniform(-0.1, 0.1)]
    tr = [o0, pq]
    if rng.random() < 0.5:
        # dense variant: an observation ON the linked edge itself, so that the linked move is a direct emitting transition
        fa, fb = c[lab[first]], c[lab["B"]]
        tt = rng.choice([0.3, 0.5, 0.7])
        tr = [o0, [fa[0] + tt * (fb[0] - fa[0]), fa[1] + tt * (fb[1] - fa[1])], pq]
    if rng.random() < 0.6:
        qr = [(c[lab["Q"]][0] + c[lab["R"]][0]) / 2, (c[lab["Q"]][1] + c[lab["R"]][1]) / 2]
        tr.append(qr)
    if rng.random() < 0.3:
        tr.insert(0, [c[lab["T"]][0] + 0.3, c[lab["T"]][1] + rng.uniform(-0.1, 0.1)])
    cfg = gen.gen_cfg(rng, families=("simple", "distance"), ne=True, width=rng.choice([False, False, "maybe"]), cut=False)
    cfg["obs_noise"] = rng.choice([0.5, 1.0, 2.0])
    cfg["obs_noise_ne"] = rng.choice([None, 3.0, 10.0])
    cfg["max_dist"] = rng.choice([None, None, 15.0])
    cfg["restrained_ne"] = rng.random() < 0.3
    return {"map": m, "trace": tr, "cfg": cfg, "backend": "inmem", "shared_end": True}


def gen_case(rng, i, tier):
    if i % 12 == 1:
        # node-and-edge states on a sparsely observed chain whose integer labels 0..n-1 are scattered over the chain (label 0,
        # which is falsy, somewhere in the middle): every gap needs non-emitting node AND edge states
        m, tr = gen.gen_sparse_chain_case(rng, labels=("intperm",))
        if rng.random() < 0.6 and m.get("created") and len(m["created"]) >= 5:
            # ... with a one-way dead-end spur whose END node carries the label 0: the vehicle is seen on the spur and next
            # far along the main road (it cannot get there from the spur: the match has to leave through the fork node)
            c_ = gen.coords(m)
            main = list(m["created"])[: m.get("chain_len", len(m["created"]))]
            k_ = rng.randint(1, len(main) - 3)
            fork = main[k_]
            new = max(l for l, _ in m["nodes"]) + 1
            ren = {0: new, new: 0}   # the label 0 moves to the spur end; the node that had it gets a fresh label
            m["nodes"] = [[ren.get(l, l), p_] for l, p_ in m["nodes"]]
            m["edges"] = [[ren.get(a, a), ren.get(b, b)] for a, b in m["edges"]]
            m["created"] = [ren.get(l, l) for l in m["created"]]
            main = [ren.get(l, l) for l in main]
            fork = ren.get(fork, fork)
            c2 = gen.coords(m)
            pf = c2[fork]
            pn = c2[main[k_ + 1]]
            dy, dx = pn[0] - pf[0], pn[1] - pf[1]
            spur_end = [pf[0] - dx - 0.3 * dy, pf[1] + dy - 0.3 * dx]   # roughly perpendicular, leaning backwards
            m["nodes"].append([0, spur_end])
            m["edges"].append([fork, 0])
            if rng.random() < 0.7:   # main road one-way beyond the fork
                m["edges"] = [e for e in m["edges"] if not (e[0] in main and e[1] in main and main.index(e[0]) > main.index(e[1]))]
            far = main[min(len(main) - 1, k_ + rng.randint(2, 3))]
            tr = [list(pf), [pf[0] + 0.5 * (spur_end[0] - pf[0]), pf[1] + 0.5 * (spur_end[1] - pf[1])], list(c2[far])]
            if rng.random() < 0.4 and k_ >= 1:
                tr.insert(0, list(c2[main[k_ - 1]]))
        cfg = gen.gen_cfg(rng, families=("simple_nodes",), ne=True, width="maybe", cut=False)
        cfg["max_dist"] = rng.choice([None, 1.5, 3.0])
        case = {"map": m, "trace": tr, "cfg": cfg, "backend": "inmem"}
        case["ops"] = gen.gen_history(rng, len(tr), cfg["width"], allow_cwd=False, max_ops=2)
        return case
    if i % 12 == 9:
        case = gen.gen_carriageway_case(rng)
        case["backend"] = "inmem"
        case["shared_end"] = True
        case["ops"] = gen.gen_history(rng, len(case["trace"]), case["cfg"]["width"], allow_cwd=False, max_ops=2)
        return case
    if i % 12 == 5:
        case = gen_shared_end_case(rng)
        case["ops"] = gen.gen_history(rng, len(case["trace"]), case["cfg"]["width"], allow_cwd=False, max_ops=2)
        return case
    if i % 60 == 13:
        case = mcase.gen_large_mcase(rng)
        case["backend"] = "inmem"
        case["ops"] = gen.gen_history(rng, len(case["trace"]), case["cfg"]["width"], allow_cwd=False, max_ops=2)
        return case
    sq = rng.random() < 0.15
    case = mcase.gen_mcase(rng, families=gen.FAMILIES_ALL, ne=(rng.random() < 0.6), width="maybe", tighten_p=0.15, sparse_p=0.3, max_obs=9,
                           labels=("int", "intperm") if sq else ("int", "intperm", "str", "gap"))
    m = case["map"]
    es = gen.real_edges(m)
    if not sq and rng.random() < 0.18 and len(es) >= 2 and case["cfg"]["family"] != "simple_nodes":
        linked = []
        for _ in range(rng.randint(1, 3)):
            a, b = rng.sample(es, 2)
            linked.append([list(a), list(b)])
            if rng.random() < 0.5:
                linked.append([list(b), list(a)])
        m["linked"] = linked
    case["backend"] = "sqlite" if sq else "inmem"
    if sq:
        if rng.random() < 0.5:
            m["edges"] = [e for e in m["edges"] if e[0] != e[1]]  # half of the SQLite maps without self-listed nodes
        elif rng.random() < 0.5 and m["nodes"]:
            # a node that lists itself (as found in imported data), and a vehicle parked next to it
            l0, p0 = rng.choice(m["nodes"])
            if [l0, l0] not in m["edges"]:
                m["edges"].append([l0, l0])
            nz = rng.choice([0.02, 0.1, 0.3])
            case["trace"] = [[p0[0] + rng.gauss(0, nz), p0[1] + rng.gauss(0, nz)] for _ in range(rng.randint(2, 6))]
            case["parked_at_self_listed_node"] = True
        if rng.random() < 0.5:
            case["rebuilt"] = rng.choice([0.5, 1.0, 2.0, 5.0])
            case["cfg"]["non_emitting"] = rng.random() < 0.7
    case["ops"] = gen.gen_history(rng, len(case["trace"]), case["cfg"]["width"], allow_cwd=(rng.random() < 0.1 and not sq), max_ops=3)
    if not case.get("large") and not case["map"].get("latlon"):
        gen.add_pre_trace(rng, case)
    return case


def check_case(ctx, case):
    if case.get("shared_end"):
        ctx.count("shared_end_linked_cases")
    if case.get("large"):
        ctx.count("large_map_cases")
    m = case["map"]
    model = MapModel(m)
    sm = None
    if case["backend"] == "sqlite":
        name = None
        if case.get("rebuilt"):
            # the database file is REBUILT: an earlier map with the same name and directory held the same roads WITH parallel
            # roads linked (connect_parallelroads); the new map is loaded without links, and the model has none
            import os
            name = f"rebuilt{os.getpid()}_{ctx.cases}"
            old = build.make_sqlite(m, ctx.scratch, name=name)
            try:
                old.connect_parallelroads(dist=case["rebuilt"])
                n_links = old.db.execute("SELECT count(*) FROM close_edges").fetchone()[0]
                ctx.count("rebuilt_sqlite_maps")
                if n_links:
                    ctx.count("rebuilt_sqlite_maps_with_stale_links")
            finally:
                old.db.close()
        mp = sm = build.make_sqlite(m, ctx.scratch, name=name)
        ctx.count("sqlite_maps")
        if any(a == b for a, b in m["edges"]):
            ctx.count("sqlite_maps_with_self_listed_node")
        if case.get("parked_at_self_listed_node"):
            ctx.count("sqlite_parked_at_self_listed_node")
    else:
        mp = build.make_inmem(m)
    if m.get("linked"):
        ctx.count("linked_edge_maps")
    es = set(model.edges)
    if any((b, a) not in es for a, b in es):
        ctx.count("oneway_maps")
    if any(a == b for a, b in m["edges"]):
        ctx.count("selfloop_maps")
    mt = build.make_matcher(mp, case["cfg"])
    tr = build.trace(case["trace"])
    jumps = [False]
    big = [False]
    linked = set()
    for pair in m.get("linked") or []:
        linked.add((tuple(pair[0]), tuple(pair[1])))

    def after(i, op, res, exc):
        if op["op"] == "cwd" and res == "cwd":
            jumps[0] = True
        if exc is not None:
            ctx.count("op_raised")
            return
        if op["op"] == "match":
            jumps[0] = False
        lb = mt.lattice_best
        if not lb or op["op"] == "cwd":
            return
        ctx.evaluated()
        ctx.count("paths_judged")
        keys = [x.shortkey for x in lb]
        ctx.count("consecutive_pairs", max(0, len(keys) - 1))
        for a, b in zip(lb, lb[1:]):
            if b.obs_ne != 0:
                ctx.count("pairs_inside_nonemitting_runs")
            ka, kb = a.shortkey, b.shortkey
            if isinstance(ka, tuple) and isinstance(kb, tuple) and kb == (ka[1], ka[0]):
                ctx.count("uturn_moves")
            if (ka, kb) in linked:
                ctx.count("linked_moves")
                if case.get("shared_end"):
                    ctx.count("shared_end_cases_using_the_linked_move")
        if not m.get("linked") and not jumps[0]:
            ctx.count("nodes_only_views")
        if len(set(keys)) >= 3:
            big[0] = True
        for kind, text in oracles.walk(mt, model, jumps_used=jumps[0]):
            ctx.violation(f"C04:{kind}:{case['backend']}:{case['cfg']['family']}", case, f"after operation #{i} {op}: {text}")
    try:
        monitors.run_history(mt, tr, case["ops"], after=after)
        if not jumps[0] and mt.lattice and mt.path:
            amplify(ctx, case, mt, mp, model)
    finally:
        if sm is not None:
            build.close_sqlite(sm)
    if big[0]:
        ctx.nontriv(case)
    ctx.sample(case)


def amplify(ctx, case, mt, mp, model):
    """Directed amplification.  The property speaks about the best path, but every live lattice entry is the end of a path
    that becomes the best path for some continuation of the trace.  The lattice is scanned for states / best-predecessor
    links the map does not offer (hints); for each hint a derived trace is matched on a fresh matcher - the original trace
    cut after the entry's observation, with that observation moved onto the entry's own state - and the derived result is
    judged by the same best-path oracle.  Only a confirmed best-path violation is a verdict; an unconfirmed hint is
    counted (evidence counter lattice_hints_not_confirmed)."""
    hints, n = oracles.lattice_bad_links(mt, model)
    ctx.count("lattice_links_scanned", n)
    if not hints:
        return
    ctx.count("lattice_hints", len(hints))
    path = [tuple(p) for p in mt.path]
    confirmed = False
    for x, p, kind in hints[:4]:
        # aim at an emitting entry whose chain contains the hinted link: x itself, or an emitting successor of a non-emitting x
        target = x
        if x.obs_ne != 0:
            i = x.obs + 1
            succ = [e for e in mt.lattice[i].values(0) if not e.stop and any(q is x for q in e.prev)] if i in mt.lattice else []
            if not succ:
                continue
            target = succ[0]
        i = target.obs
        em = target.edge_m
        if em.p2 is not None:
            a = tuple(em.pi[:2]) if em.pi is not None else tuple(em.p1[:2])
            b = tuple(em.p2[:2])
        else:
            a = b = tuple(em.p1[:2])
        # derived traces: the original observations up to the entry's own observation, followed by 1..3 further observations
        # ON the entry's state (so that staying on it is the most probable continuation); columns <= i are unaffected
        for extra in (1, 2, 3):
            pts = [[a[0] + (b[0] - a[0]) * k / (extra + 1), a[1] + (b[1] - a[1]) * k / (extra + 1)] for k in range(1, extra + 1)]
            derived = [list(q[:2]) for q in path[:i + 1]] + pts
            for cfg in (dict(case["cfg"]), dict(case["cfg"], width=None)):
                m2 = build.make_matcher(mp, cfg)
                try:
                    m2.match(build.trace(derived))
                except Exception:
                    continue
                ctx.count("amplified_runs")
                v = oracles.walk(m2, model, jumps_used=False)
                if v:
                    k2, text = v[0]
                    wit = {"map": case["map"], "trace": derived, "cfg": cfg, "backend": case["backend"],
                           "ops": [{"op": "match", "k": len(derived), "unique": False}],
                           "derived_from": {"trace": case["trace"], "ops": case["ops"], "hint": f"{kind}: {p.key if p is not None else None} -> {x.key}"}}
                    ctx.violation(f"C04:{k2}:{case['backend']}:{case['cfg']['family']}", wit,
                                  f"[derived trace: {extra} observation(s) appended on the state of a lattice entry whose best-predecessor link "
                                  f"{p.key if p is not None else ''} -> {x.key} the map does not offer] {text}")
                    confirmed = True
                    break
            if confirmed:
                break
        if confirmed:
            break
    if not confirmed:
        # a hinted entry can be dominated (never on a best path for any continuation): counted, reported in the evidence, no verdict
        ctx.count("lattice_hints_not_confirmed")


# no result depends on the log level: a tenth of the cases runs with the package logger at DEBUG (replayable: the flag is
# part of the case / of the recorded witness)
_dbg_gen, _dbg_chk = env.debug_dimension(0.1)
gen_case = _dbg_gen(gen_case)
check_case = _dbg_chk(check_case)

# no clause depends on the coordinate unit: 8 % of the planar cases are expressed in a small unit (everything x 2^-7..2^-17)
gen_case = mcase.scale_dimension(0.08)(gen_case)

TECHNIQUE = "runtime monitoring: oracle over the reported best path against the raw graph after every public call of generated histories (both backends)"
LEVEL_TEXT = ("{Q} (quick) / {T} (thorough) histories; every state of every reported best path must be a node/directed edge of the raw graph and every "
              "consecutive pair a move the graph offers; the nodes-only view must be computable, without immediate repeats and pairwise adjacent "
              "(maps without linked edges, no jump used). In addition the whole lattice is scanned for best-predecessor links the map does not offer; such a hint only becomes a verdict when a derived trace (directed amplification) puts it on a best path. Held-on-observed.")
LEVEL_NOTE = "Trusted: the raw-graph adjacency of the case. Linked parallel edges only on InMemMap (SqliteMap needs an R-tree scan to create them)."
