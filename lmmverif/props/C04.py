"""C04 The matched sequence is a walk in the road graph.

Monitor shape: oracle over the reported best path after every public call, with adjacency taken
from the raw graph of the case (for SqliteMap: from the inserted edge list), never from the
map's own neighbour queries.
"""
from .. import env  # noqa: F401
from .. import gen, build, mcase, monitors, oracles
from ..mapmodel import MapModel

ID = "C04"
CASES = {"quick": 10000, "thorough": 300000}
MIN_CASES_PER_SHARD = 50
CASE_TIMEOUT = 60
RULE = ("one case = generated map (one-way streets, dead ends, self-listed neighbours, zero-length roads; 15 % with linked parallel edges; 15 % "
        "loaded in SqliteMap) x trace x configuration (all families, non-emitting on in 60 %, widths) x history of match/extend/widen calls (10 % "
        "with continue_with_distance, where only state existence is judged). Non-trivial = best path visiting >= 3 distinct states; distinct = "
        "hash of the case")
ANCHORS = [("leuvenmapmatching/matcher/base.py", "BaseMatcher._match_states"),
           ("leuvenmapmatching/matcher/base.py", "BaseMatcher._match_non_emitting_states_inner"),
           ("leuvenmapmatching/matcher/base.py", "BaseMatcher._match_non_emitting_states_end"),
           ("leuvenmapmatching/matcher/base.py", "BaseMatcher._node_in_prev_ne"),
           ("leuvenmapmatching/matcher/base.py", "BaseMatcher.node_path_to_only_nodes"),
           ("leuvenmapmatching/map/inmem.py", "InMemMap.nodes_nbrto"),
           ("leuvenmapmatching/map/inmem.py", "InMemMap.edges_nbrto"),
           ("leuvenmapmatching/map/sqlite.py", "SqliteMap.nodes_nbrto"),
           ("leuvenmapmatching/map/sqlite.py", "SqliteMap.edges_nbrto")]
FLOORS = {"consecutive_pairs": 6000, "pairs_inside_nonemitting_runs": 700, "paths_judged": 4000, "nodes_only_views": 3000, "linked_edge_maps": 200,
          "sqlite_maps": 200, "oneway_maps": 800, "selfloop_maps": 300, "uturn_moves": 100, "linked_moves": 5}
ASSUMPTIONS = ["after continue_with_distance (a jump operation) only the existence of the states is judged, as the property states"]


def gen_case(rng, i, tier):
    if i % 60 == 13:
        case = mcase.gen_large_mcase(rng)
        case["backend"] = "inmem"
        case["ops"] = gen.gen_history(rng, len(case["trace"]), case["cfg"]["width"], allow_cwd=False, max_ops=2)
        return case
    sq = rng.random() < 0.15
    case = mcase.gen_mcase(rng, ne=(rng.random() < 0.6), width="maybe", tighten_p=0.15, sparse_p=0.3, max_obs=9,
                           labels=("int",) if sq else ("int", "int", "str", "gap"))
    m = case["map"]
    es = gen.real_edges(m)
    if not sq and rng.random() < 0.18 and len(es) >= 2 and case["cfg"]["family"] != "simple_nodes":
        linked = []
        for _ in range(rng.randint(1, 3)):
            a, b = rng.sample(es, 2)
            linked.append([list(a), list(b)])
            if rng.random() < 0.5:
                linked.append([list(b), list(a)])
        m["linked"] = linked
    case["backend"] = "sqlite" if sq else "inmem"
    if sq:
        m["edges"] = [e for e in m["edges"] if e[0] != e[1]]  # SqliteMap has no self-listed neighbours idiom
    case["ops"] = gen.gen_history(rng, len(case["trace"]), case["cfg"]["width"], allow_cwd=(rng.random() < 0.1 and not sq), max_ops=3)
    if not case.get("large") and not case["map"].get("latlon"):
        gen.add_pre_trace(rng, case)
    return case


def check_case(ctx, case):
    if case.get("large"):
        ctx.count("large_map_cases")
    m = case["map"]
    model = MapModel(m)
    sm = None
    if case["backend"] == "sqlite":
        mp = sm = build.make_sqlite(m, ctx.scratch)
        ctx.count("sqlite_maps")
    else:
        mp = build.make_inmem(m)
    if m.get("linked"):
        ctx.count("linked_edge_maps")
    es = set(model.edges)
    if any((b, a) not in es for a, b in es):
        ctx.count("oneway_maps")
    if any(a == b for a, b in m["edges"]):
        ctx.count("selfloop_maps")
    mt = build.make_matcher(mp, case["cfg"])
    tr = build.trace(case["trace"])
    jumps = [False]
    big = [False]
    linked = set()
    for pair in m.get("linked") or []:
        linked.add((tuple(pair[0]), tuple(pair[1])))

    def after(i, op, res, exc):
        if op["op"] == "cwd" and res == "cwd":
            jumps[0] = True
        if exc is not None:
            ctx.count("op_raised")
            return
        if op["op"] == "match":
            jumps[0] = False
        lb = mt.lattice_best
        if not lb or op["op"] == "cwd":
            return
        ctx.evaluated()
        ctx.count("paths_judged")
        keys = [x.shortkey for x in lb]
        ctx.count("consecutive_pairs", max(0, len(keys) - 1))
        for a, b in zip(lb, lb[1:]):
            if b.obs_ne != 0:
                ctx.count("pairs_inside_nonemitting_runs")
            ka, kb = a.shortkey, b.shortkey
            if isinstance(ka, tuple) and isinstance(kb, tuple) and kb == (ka[1], ka[0]):
                ctx.count("uturn_moves")
            if (ka, kb) in linked:
                ctx.count("linked_moves")
        if not m.get("linked") and not jumps[0]:
            ctx.count("nodes_only_views")
        if len(set(keys)) >= 3:
            big[0] = True
        for kind, text in oracles.walk(mt, model, jumps_used=jumps[0]):
            ctx.violation(f"C04:{kind}:{case['backend']}:{case['cfg']['family']}", case, f"after operation #{i} {op}: {text}")
    try:
        monitors.run_history(mt, tr, case["ops"], after=after)
    finally:
        if sm is not None:
            build.close_sqlite(sm)
    if big[0]:
        ctx.nontriv(case)
    ctx.sample(case)


TECHNIQUE = "runtime monitoring: oracle over the reported best path against the raw graph after every public call of generated histories (both backends)"
LEVEL_TEXT = ("{Q} (quick) / {T} (thorough) histories; every state of every reported best path must be a node/directed edge of the raw graph and every "
              "consecutive pair a move the graph offers; the nodes-only view must be computable, without immediate repeats and pairwise adjacent "
              "(maps without linked edges, no jump used). Held-on-observed.")
LEVEL_NOTE = "Trusted: the raw-graph adjacency of the case. Linked parallel edges only on InMemMap (SqliteMap needs an R-tree scan to create them)."
