"""C02 Reported probability is the model probability of the reported path.

Monitor shape: history + executable model.  After every public call of a generated operation
history the reported best path of the real matcher is re-scored state by state with the
documented formulas (rescoring.py) and compared field by field (logprob, length, and for the
distance family the carried distances d_o / d_s).
"""
from .. import env  # noqa: F401
from .. import gen, build, mcase, monitors, oracles
from ..mapmodel import MapModel

ID = "C02"
CASES = {"quick": 8000, "thorough": 200000}
MIN_CASES_PER_SHARD = 40
CASE_TIMEOUT = 40
RULE = ("one case = generated map x trace x configuration (both families, edge-only and node-and-edge states, non-emitting on in 70 %, "
        "avoid_goingback on/off, widths, separate noise for non-emitting states, length factor) x history of match / extend / widen calls; 35 % "
        "are chain maps with every 2nd-4th node observed so that non-emitting states are on the best path; 15 % street-scale latitude-longitude maps, 12 % maps with linked parallel edges, 25 % histories starting with another trace on the same matcher object. Non-trivial = best path with >= 3 "
        "states; distinct = hash of the case")
ANCHORS = [("leuvenmapmatching/matcher/base.py", "BaseMatching.next"),
           ("leuvenmapmatching/matcher/base.py", "BaseMatching._update_inner"),
           ("leuvenmapmatching/matcher/distance.py", "DistanceMatching._update_inner"),
           ("leuvenmapmatching/matcher/distance.py", "DistanceMatcher.logprob_trans"),
           ("leuvenmapmatching/matcher/distance.py", "DistanceMatcher.logprob_obs"),
           ("leuvenmapmatching/matcher/simple.py", "SimpleMatcher.logprob_trans"),
           ("leuvenmapmatching/matcher/simple.py", "SimpleMatcher.logprob_obs")]
FLOORS = {"states_rescored": 12000, "nonemitting_states_rescored": 1500, "paths_rescored": 3000, "paths_with_nonemitting": 600,
          "paths_after_widen": 300, "paths_after_extend": 300, "family:distance": 600, "family:simple": 600, "family:simple_nodes": 600,
          "second_order_paths": 800, "latlon_paths": 500, "paths_with_unconnected_move": 20, "tiny_scale_cases": 300}
ASSUMPTIONS = ["geometry (projection points, relative positions, dist_obs) is taken as reported after self-consistency predicates; its truth is C05/C13",
               "log-probabilities compared at 1e-9*max(1,|x|)"]


def gen_case(rng, i, tier):
    if i % 12 == 5:
        # linked parallel carriageways with a change of carriageway bridged by non-emitting states (shaped class of C04/C06)
        case = gen.gen_carriageway_case(rng)
        case["cfg"]["family"] = rng.choice(["distance", "distance", "simple"])
        case["cfg"]["width"] = rng.choice([None, None, 2, 3])
        case["cfg"]["agb"] = rng.random() < 0.5
        if rng.random() < 0.5:
            # sparser: drop the fix on the first carriageway's end, so that the change happens inside a non-emitting run
            case["trace"] = [p_ for k_, p_ in enumerate(case["trace"]) if k_ != 3]
        case["ops"] = gen.gen_history(rng, len(case["trace"]), case["cfg"]["width"], allow_cwd=False, max_ops=2)
        case["carriageway"] = True
        return case
    case = mcase.gen_mcase(rng, families=gen.FAMILIES_ALL, ne=(rng.random() < 0.7), width="maybe", tighten_p=0.2, sparse_p=0.35, max_obs=9)
    if rng.random() < 0.15:
        from .C05 import to_latlon
        to_latlon(case, rng)  # street-scale latitude-longitude map, parameters in metres
    elif case["cfg"]["family"] != "simple_nodes" and rng.random() < 0.12:
        es = gen.real_edges(case["map"])  # linked parallel edges: moves between edges that are not connected through a node
        if len(es) >= 2:
            linked = []
            for _ in range(rng.randint(1, 4)):
                a, b = rng.sample(es, 2)
                linked.append([list(a), list(b)])
                linked.append([list(b), list(a)])
            case["map"]["linked"] = linked
    if not case["map"].get("latlon") and rng.random() < 0.12:
        # tiny coordinate units (e.g. raw degrees used as y-x): everything scaled exactly by 2^-k
        sc = 2.0 ** -rng.choice([10, 14, 17])
        case["map"] = gen.transform_map(case["map"], sc)
        case["trace"] = gen.transform_trace(case["trace"], sc)
        for key in ("obs_noise", "obs_noise_ne", "dist_noise", "dist_noise_ne", "max_dist", "max_dist_init"):
            if case["cfg"].get(key) is not None:
                case["cfg"][key] *= sc
        case["tiny"] = True
    case["ops"] = gen.gen_history(rng, len(case["trace"]), case["cfg"]["width"], allow_cwd=False, max_ops=4)
    if not case.get("large") and not case["map"].get("latlon"):
        gen.add_pre_trace(rng, case)
    return case


def shard_setup(ctx):
    mon = monitors.StampMonitor()
    mon.install()
    ctx.state["stamps"] = mon


def shard_teardown(ctx):
    ctx.state["stamps"].uninstall()


def check_case(ctx, case):
    ctx.state["stamps"].reset()
    if case.get("tiny"):
        ctx.count("tiny_scale_cases")
    mp = build.make_inmem(case["map"])
    mt = build.make_matcher(mp, case["cfg"])
    model = MapModel(case["map"])
    tr = build.trace(case["trace"])
    fam = case["cfg"]["family"]
    counters = {}
    big = [False]

    def after(i, op, res, exc):
        if exc is not None:
            ctx.count("op_raised")
            return
        if not mt.lattice_best:
            return
        ctx.evaluated()
        ctx.count("paths_rescored")
        ctx.count(f"paths_after_{op['op']}")
        ctx.count(f"family:{fam}")
        if model.latlon:
            ctx.count("latlon_paths")
        if case["map"].get("linked"):
            lb = mt.lattice_best
            if any(isinstance(x.shortkey, tuple) and isinstance(y.shortkey, tuple) and x.shortkey != y.shortkey
                   and x.shortkey[1] != y.shortkey[0] for x, y in zip(lb, lb[1:])):
                ctx.count("paths_with_unconnected_move")
        if case["cfg"]["agb"]:
            ctx.count("second_order_paths")
        if any(x.obs_ne for x in mt.lattice_best):
            ctx.count("paths_with_nonemitting")
        if len(mt.lattice_best) >= 3:
            big[0] = True
        # "observation distance ... exactly what the documented model assigns": the reported distance / position of every
        # emitting state against the map's own geometry (exact-rational / vector reference)
        for kind, text in oracles.cutoffs_and_nearest(mt, model, mt.path):
            if kind.startswith("reported-") or kind == "node-distance-wrong":
                ctx.violation(f"C02:geometry:{kind}:{'latlon' if model.latlon else 'planar'}", case, f"after operation #{i} {op}: {text}")
                break
        for kind, text in oracles.rescore_path(mt, fam, model, counters, stamps=ctx.state["stamps"], cfg=case["cfg"]):
            order = "second-order" if case["cfg"]["agb"] else "first-order"
            if "stale-child" in kind:
                ctx.violation(f"C02:{kind}", case, f"after operation #{i} {op} [{fam}, {order}]: {text}")
            else:
                ctx.violation(f"C02:{kind}:{fam}:{order}:after-{op['op']}", case, f"after operation #{i} {op}: {text}")
    monitors.run_history(mt, tr, case["ops"], after=after)
    for k, v in counters.items():
        ctx.count(k, v)
    if big[0]:
        ctx.nontriv(case)
    ctx.sample(case)


# no result depends on the log level: a tenth of the cases runs with the package logger at DEBUG (replayable: the flag is
# part of the case / of the recorded witness)
_dbg_gen, _dbg_chk = env.debug_dimension(0.1)
gen_case = _dbg_gen(gen_case)
check_case = _dbg_chk(check_case)

# no clause depends on the map backend: a tenth of the eligible cases (integer labels, no linked edges) runs on SqliteMap
_bk_gen, _bk_chk = build.backend_dimension(0.12)
gen_case = _bk_gen(gen_case)
check_case = _bk_chk(check_case)

TECHNIQUE = "runtime monitoring: independent re-scoring of the reported best path (documented formulas) after every call of generated operation histories"
LEVEL_TEXT = ("{Q} (quick) / {T} (thorough) operation histories; every reported best path (~2 per history, ~6 states each, non-emitting states on the "
              "path in a measured fraction) is re-scored with the documented model and compared on logprob, length and carried distances. Held-on-observed.")
LEVEL_NOTE = "A monitor-side logical clock on lattice entries (last write / last expansion) classifies the one recorded mechanism (stale child after in-place replacement in a later round). Trusted: rescoring.py (written from the doc-strings; validated by mutants: min->sum, wrong noise, forgotten d_s/d_o, stale predecessor)."
