"""C19 Turning on debug logging does not change results.

Monitor shape: differential monitor over sibling executions: the same operation history on two
matchers built from one configuration, one with the package logger at its default level, one at
DEBUG (with a null handler, or with a stream handler writing to a sink).  No tie allowance: the
statement promises identical results.
"""
import io
import logging
import math

from .. import env
from .. import gen, build, mcase, monitors

ID = "C19"
CASES = {"quick": 20000, "thorough": 200000}
MIN_CASES_PER_SHARD = 30
CASE_TIMEOUT = 60
RULE = ("one case = generated map x trace (outliers, first observation too far or too improbable) x configuration (all families, non-emitting "
        "on in 60 %, widths, cut-offs that bite incl. exact thresholds) x history of match/extend/widen calls, executed (on InMemMap, 15-20 % on SqliteMap) at ERROR and at DEBUG "
        "(null handler or stream handler). Non-trivial = the DEBUG run materialised >= 1 stopped lattice entry; distinct = hash of the case")
ANCHORS = [("leuvenmapmatching/matcher/base.py", "BaseMatching.next"),
           ("leuvenmapmatching/matcher/base.py", "BaseMatching.first"),
           ("leuvenmapmatching/matcher/base.py", "BaseMatcher._match_non_emitting_states_inner"),
           ("leuvenmapmatching/matcher/base.py", "BaseMatcher._match_non_emitting_states_end"),
           ("leuvenmapmatching/matcher/base.py", "LatticeColumn.prune"),
           ("leuvenmapmatching/matcher/base.py", "BaseMatcher.match")]
FLOORS = {"results_compared": 2500, "debug_runs_with_stopped_entries": 700, "stopped_entries_materialised": 8000, "stream_handler_runs": 300,
          "with_nonemitting": 600, "with_width": 500, "early_stops_compared": 300, "sqlite_backend_pairs": 200, "merge_class_pairs": 400, "tie_class_pairs": 400, "merge_class_pairs_with_stopped_nonemitting_entry": 50}
ASSUMPTIONS = ["identical means: returned states, index, keys and log-probabilities of the best path compare equal (==)"]


def gen_merge_case(rng):
    """two one-way roads merge into one node, the trace starts between them (a little closer to one), follows the other and
    then skips a road, so that the SAME non-emitting state is reached from two parents: one whose path is (about) as
    improbable as the probability cut-off allows, one that is fine.  At DEBUG the rejected candidate is materialised as a
    stopped entry under the same key before the good one arrives."""
    u = rng.choice([1.0, 1.0, 0.1, 30.0])
    gap = rng.uniform(3.0, 9.0)
    pts = {"A": (-20.0, 0.0), "C": (-20.0 + rng.uniform(-2, 2), -gap), "B": (0.0, 0.0), "D": (0.0, rng.uniform(6, 12)), "F": (-30.0, 10.0),
           "G": (rng.uniform(5, 15), rng.uniform(-5, 5))}
    pts["F"] = (-30.0, pts["D"][1])
    edges = [("A", "B"), ("C", "B"), ("B", "D"), ("D", "F"), ("B", "G")]
    if rng.random() < 0.3:
        edges += [("D", "B")]
    names = list(pts)
    ids = rng.sample(range(1, 60), len(names))
    lab = dict(zip(names, ids if rng.random() < 0.6 else ["N%d" % v for v in ids]))
    rng.shuffle(edges)
    nodes = [[lab[k], [v[0] * u, v[1] * u]] for k, v in pts.items()]
    rng.shuffle(nodes)
    m = {"nodes": nodes, "edges": [[lab[a], lab[b]] for a, b in edges], "latlon": False, "kind": "merge"}
    f = rng.uniform(0.45, 0.7)   # 0.5 = exactly between the two roads at x = -19
    tr = [[-19.0 * u, -gap * f * u], [rng.uniform(-14, -8) * u, rng.uniform(-0.8, 0.8) * u], [rng.uniform(-8, -2) * u, (pts["D"][1] + rng.uniform(-0.8, 0.8)) * u]]
    if rng.random() < 0.3:
        tr.append([rng.uniform(-25, -15) * u, (pts["D"][1] + rng.uniform(-0.8, 0.8)) * u])
    cfg = gen.gen_cfg(rng, families=("simple", "simple", "distance", "newsonkrumm"), ne=True, width="maybe", cut=False)
    cfg["obs_noise"] = rng.choice([2.0, 3.0, 4.0]) * u
    cfg["obs_noise_ne"] = rng.choice([None, 10.0 * u, 6.0 * u])
    cfg["max_dist"] = rng.choice([8.0, 10.0, 15.0]) * u
    cfg["max_dist_init"] = None
    cfg["min_prob_norm"] = rng.choice([0.3, 0.4, 0.5, 0.52, 0.6, 0.7])
    case = {"map": m, "trace": tr, "cfg": cfg, "merge": True}
    if rng.random() < 0.5:
        mcase.tighten(case, rng, what=("min_prob_norm",))
    return case


def gen_triangle_case(rng):
    """two one-way approaches (a detour p1->a->b whose start is far from the first observation, and the straight road
    p2->a2->b) reach the edge b->c in the second non-emitting layer; c->a closes a triangle through the detour's node a, and
    the second observation lies on c->a.  The candidate via the detour fails the probability cut-off at b->c."""
    u = rng.choice([1.0, 1.0, 0.5, 4.0])
    j = lambda v: v + rng.uniform(-0.3, 0.3)
    pts = {"p2": (-10.0, 0.0), "a2": (0.0, 0.0), "b": (10.0, 0.0), "c": (20.0, 0.0), "p1": (-10.0, j(1.0)), "a": (j(0.0), j(8.0))}
    edges = [("p2", "a2"), ("a2", "b"), ("p1", "a"), ("a", "b"), ("b", "c"), ("c", "a")]
    if rng.random() < 0.3:
        pts["e"] = (30.0, j(0.0))
        edges.append(("c", "e"))
    names = list(pts)
    ids = rng.sample(range(1, 60), len(names))
    lab = dict(zip(names, ids if rng.random() < 0.6 else ["N%d" % v for v in ids]))
    rng.shuffle(edges)
    nodes = [[lab[k], [v[0] * u, v[1] * u]] for k, v in pts.items()]
    rng.shuffle(nodes)
    m = {"nodes": nodes, "edges": [[lab[a], lab[b]] for a, b in edges], "latlon": False, "kind": "triangle"}
    tr = [[rng.uniform(-7, -3) * u, rng.uniform(-0.2, 0.2) * u], [rng.uniform(12, 16) * u, rng.uniform(1.8, 3.0) * u]]
    if rng.random() < 0.3:
        tr.append([rng.uniform(4, 8) * u, rng.uniform(5.0, 6.5) * u])
    cfg = gen.gen_cfg(rng, families=("simple", "simple", "distance", "newsonkrumm"), ne=True, width=False, cut=False)
    cfg["obs_noise"] = 1.0 * u
    cfg["obs_noise_ne"] = rng.choice([3.0, 3.0, 2.0, 5.0]) * u
    cfg["max_dist_init"] = 30.0 * u
    cfg["max_dist"] = None
    cfg["min_prob_norm"] = math.exp(-rng.choice([7.4, 7.0, 7.8, 6.5, 8.5]))
    case = {"map": m, "trace": tr, "cfg": cfg, "merge": True, "triangle": True}
    if rng.random() < 0.4:
        mcase.tighten(case, rng, what=("min_prob_norm",))
    return case


def gen_case(rng, i, tier):
    if i % 10 == 3:
        # exact ties (mirror-symmetric merge, symmetric fork, linked carriageways - the classes of C10) together with cut-offs
        # that reject some candidates: the order in which equally probable candidates sit in a column must not depend on
        # whether rejected ones were materialised
        from .C10 import gen_mirror_case, gen_fork_case, gen_linked_tie_case
        case = rng.choice([gen_mirror_case, gen_fork_case, gen_linked_tie_case])(rng)
        case.pop("unique", None)
        cfg = case["cfg"]
        if case.get("fork") and rng.random() < 0.6:
            # the whole trace on the axis of symmetry, starting so close to the fork that the branches are start candidates too:
            # the branches tie at every observation, and a high probability cut-off rejects the move stem -> branch while
            # staying on a branch passes
            u_ = cfg["obs_noise"] / 2.0
            case["trace"] = [[0.0, rng.choice([9.0, 9.5, 8.5]) * u_], [0.0, rng.choice([13.0, 15.0, 12.0]) * u_]]
            cfg["obs_noise"] = rng.choice([10.0, 10.0, 5.0, 2.0]) * u_
            cfg["max_dist"] = cfg["max_dist_init"] = rng.choice([20.0, 12.0, 8.0]) * u_
            cfg["min_prob_norm"] = rng.choice([0.95, 0.95, 0.95, 0.9, 0.8])
            cfg["non_emitting"] = rng.random() < 0.5
            if rng.random() < 0.5:
                cfg["family"] = "simple"
            cfg["width"] = rng.choice([None, None, 3])
        if rng.random() < (0.3 if case.get("fork") else 0.7):
            mcase.tighten(case, rng)
        if cfg["max_dist"] is None and cfg["min_prob_norm"] is None:
            cfg["min_prob_norm"] = rng.choice([0.5, 0.1, 0.01])
        case["ops"] = gen.gen_history(rng, len(case["trace"]), cfg["width"], allow_cwd=False, max_ops=2)
        case["handler"] = rng.choice(["null", "null", "stream"])
        case["backend"] = "inmem"
        case["tie_class"] = True
        return case
    if i % 10 == 7:
        case = gen_triangle_case(rng) if rng.random() < 0.5 else gen_merge_case(rng)
        case["ops"] = gen.gen_history(rng, len(case["trace"]), case["cfg"]["width"], allow_cwd=False, max_ops=2)
        if rng.random() < 0.6:
            case["ops"] = [{"op": "match", "k": len(case["trace"]), "unique": rng.random() < 0.5}]
        case["handler"] = rng.choice(["null", "null", "stream"])
        case["backend"] = "inmem"
        return case
    case = mcase.gen_mcase(rng, families=gen.FAMILIES_ALL, ne=(rng.random() < 0.6), width="maybe", tighten_p=0.4, sparse_p=0.3, max_obs=8)
    cfg = case["cfg"]
    if cfg["max_dist"] is None and cfg["min_prob_norm"] is None:
        cfg["max_dist"] = rng.choice([0.5, 1.0, 2.0])
    if rng.random() < 0.3 and case["trace"]:
        j = rng.choice([0, 0, len(case["trace"]) - 1])
        case["trace"][j] = [case["trace"][j][0] + rng.choice([3.0, 8.0]), case["trace"][j][1] - 2.0]
    case["ops"] = gen.gen_history(rng, len(case["trace"]), cfg["width"], allow_cwd=False, max_ops=3)
    gen.add_pre_trace(rng, case)   # the matcher object may have matched another trace before / matches one afterwards
    case["handler"] = rng.choice(["null", "null", "stream"])
    # the map backend is part of "a match": a fifth of the integer-labelled cases runs on SqliteMap (built at the same level)
    ints = all(isinstance(l, int) for l, _ in case["map"]["nodes"]) and not case["map"].get("linked")
    case["backend"] = "sqlite" if (ints and rng.random() < 0.25) else "inmem"
    if case["backend"] == "sqlite":
        case["sqlite_bulk"] = rng.random() < 0.5
        case["sqlite_prior"] = build.prior_spec(rng) if rng.random() < 0.3 else None
    return case


def run(case, debug, scratch=None):
    tr = build.trace(case["trace"])
    out = []
    h = None
    sm = None
    if debug:
        env.logger.setLevel(logging.DEBUG)
        if case["handler"] == "stream":
            h = logging.StreamHandler(io.StringIO())
            env.logger.addHandler(h)
    try:
        if case.get("backend") == "sqlite" and scratch:
            sm = mp = build.make_sqlite(case["map"], scratch, bulk=case.get("sqlite_bulk", True), prior=case.get("sqlite_prior"))
        else:
            mp = build.make_inmem(case["map"])
        mt = build.make_matcher(mp, case["cfg"])

        def after(i, op, res, exc):
            if exc is not None:
                out.append({"exc": type(exc).__name__ + ":" + str(exc)[:80]})
            else:
                c_ = build.canon(mt, res)
                # what the matcher object reports about the match afterwards (documented attributes) belongs to the result
                try:
                    c_["path_pred"] = [list(x) if isinstance(x, tuple) else x for x in (mt.path_pred or [])] if mt.path_pred is not None else None
                except Exception as e_:
                    c_["path_pred"] = "raises " + type(e_).__name__
                try:
                    c_["path_pred_onlynodes"] = list(mt.path_pred_onlynodes) if mt.path_pred_onlynodes is not None else None
                except Exception as e_:
                    c_["path_pred_onlynodes"] = "raises " + type(e_).__name__
                out.append(c_)
        monitors.run_history(mt, tr, case["ops"], after=after)
    finally:
        env.logger.setLevel(logging.ERROR)
        if h is not None:
            env.logger.removeHandler(h)
        if sm is not None:
            build.close_sqlite(sm)
    return mt, out


def check_case(ctx, case):
    mt0, r0 = run(case, False, ctx.scratch)
    mt1, r1 = run(case, True, ctx.scratch)
    if case.get("backend") == "sqlite":
        ctx.count("sqlite_backend_pairs")
    if case.get("tie_class"):
        ctx.count("tie_class_pairs")
    if case.get("merge"):
        ctx.count("merge_class_pairs")
        # the shape is reached when the DEBUG run holds a live non-emitting entry that has a stopped sibling candidate,
        # i.e. one key was offered by a rejected and by an accepted parent
        if mt1.lattice and any(e.stop for col in mt1.lattice.values() for layer in col.o[1:] for e in layer.values()):
            ctx.count("merge_class_pairs_with_stopped_nonemitting_entry")
    ctx.evaluated(2)
    stopped = 0
    if mt1.lattice:
        for col in mt1.lattice.values():
            for layer in col.o:
                stopped += sum(1 for e in layer.values() if e.stop)
    ctx.count("stopped_entries_materialised", stopped)
    if stopped:
        ctx.count("debug_runs_with_stopped_entries")
        ctx.nontriv(case)
    if case["handler"] == "stream":
        ctx.count("stream_handler_runs")
    if case["cfg"]["non_emitting"]:
        ctx.count("with_nonemitting")
    if case["cfg"]["width"]:
        ctx.count("with_width")
    fam = case["cfg"]["family"]
    mode = ("ne-on" if case["cfg"]["non_emitting"] else "ne-off") + (":width" if case["cfg"]["width"] else "")
    n = len(case["trace"])
    for i, (a, b) in enumerate(zip(r0, r1)):
        ctx.count("results_compared")
        if "exc" not in a and not a["empty"] and a["idx"] < case["ops"][i].get("k", n) - 1:
            ctx.count("early_stops_compared")
        if a == b:
            continue
        op = case["ops"][i]
        if ("exc" in a) != ("exc" in b):
            kind = "raises-only-at-one-level"
        elif "exc" in a:
            kind = "different-exception"
        elif a["states"] is None or b["states"] is None:
            kind = "returns-None"
        elif a["empty"] != b["empty"] or a["idx"] != b["idx"]:
            kind = "index-differs"
        elif [k for k, _ in a["path"]] != [k for k, _ in b["path"]]:
            kind = "path-differs"
        elif a.get("path_pred") != b.get("path_pred") or a.get("path_pred_onlynodes") != b.get("path_pred_onlynodes"):
            kind = "reported-path-attributes-differ"
        else:
            kind = "probabilities-differ"
        ctx.violation(f"C19:{kind}:{fam}:{mode}:after-{op['op']}", case, f"operation #{i} {op}: default level -> {str(a)[:500]}; DEBUG -> {str(b)[:500]}")
        break
    ctx.sample(case)


# no clause depends on the coordinate unit: 8 % of the planar cases are expressed in a small unit (everything x 2^-7..2^-17)
gen_case = mcase.scale_dimension(0.08)(gen_case)

TECHNIQUE = "runtime monitoring: differential monitor over sibling executions (package logger at default level vs DEBUG, with null or stream handler) of generated operation histories"
LEVEL_TEXT = ("{Q} (quick) / {T} (thorough) histories executed twice; returned states, index, best-path keys and probabilities after every operation "
              "must be identical; the number of DEBUG runs that really materialised stopped lattice entries is measured and has a floor. Held-on-observed.")
LEVEL_NOTE = "Trusted: nothing beyond the two executions."
