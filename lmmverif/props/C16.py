"""C16 Matching is invariant under relabelling and rigid motions of the plane.

Monitor shape: metamorphic monitor over sibling executions.  A base case and its image under an
exact transformation (bijective renaming, node/neighbour reordering, axis swap, scaling of all
coordinates and distance parameters by 2^k, translation by an exactly representable offset) are
both executed; index and best probability must agree and the best path must be the image of the
base path unless the optimum is an exact tie.
"""
import math
import random

from .. import env  # noqa: F401
from .. import gen, build, mcase, oracles
from ..mapmodel import MapModel

ID = "C16"
CASES = {"quick": 3000, "thorough": 50000}
MIN_CASES_PER_SHARD = 10
CASE_TIMEOUT = 120
RULE = ("one case = planar base case (map x trace x configuration: all families, non-emitting on/off, widths, cut-offs) and 10 transformed "
        "siblings: renaming ints->strings, order-reversing renaming, node/neighbour reordering, axis swap, scaling by 2^k for k in "
        "{-10,-3,4,12,20}, and (without width, dyadic base coordinates) translation by an exactly representable offset. Non-trivial = base "
        "case with >= 2 live candidates in some column; distinct = hash of the base case")
ANCHORS = [("leuvenmapmatching/matcher/base.py", "BaseMatcher._match_states"),
           ("leuvenmapmatching/matcher/distance.py", "DistanceMatcher.logprob_trans"),
           ("leuvenmapmatching/util/dist_euclidean.py", "project"),
           ("leuvenmapmatching/util/dist_euclidean.py", "distance_segment_to_segment"),
           ("leuvenmapmatching/map/inmem.py", "InMemMap.edges_closeto")]
TRANSFORMS = ["rename_str", "rename_reverse", "rename_nested", "reorder", "swap_axes", "scale-10", "scale-3", "scale4", "scale12", "scale20", "translate"]
FLOORS = {f"transform:{t}": 250 for t in TRANSFORMS if t != "translate"}
FLOORS.update({"transform:translate": 80, "base_cases": 400, "base_cases_nontrivial": 250, "paths_image_identical": 2500})
ASSUMPTIONS = ["NewsonKrummMatcher (only in the shaped diamond / mirror classes) scores emissions with a probability density, which changes by log(s) per observation under scaling by construction: the scale transforms are not applied to that family",
               "renaming/reordering/swap/scaling: index equal, best probability equal to 1e-9 relative, path = image of the base path unless both "
               "totals are equal to 1e-12 (exact tie)",
               "translation (only without width, dyadic coordinates): probability to 1e-7 relative; skipped as borderline when any (state, "
               "observation) distance is within 1e-6 relative of max_dist / max_dist_init or a normalised probability within 1e-6 of "
               "min_prob_norm, because translation perturbs projected points by an ulp of the offset"]


def gen_case(rng, i, tier):
    if i % 8 in (3, 6):
        # shaped classes shared with C10: two alternative roads that rejoin under a sparse trace (a state reached from two
        # predecessors at the same non-emitting depth, no ties), and the mirror-symmetric merge with a loop (exact ties)
        from .C10 import gen_diamond_case, gen_mirror_case, gen_fork_case
        if i % 8 == 3:
            case, shaped = gen_diamond_case(rng), "diamond"
        elif i % 16 == 6:
            case, shaped = gen_mirror_case(rng), "mirror"
        else:
            case, shaped = gen_fork_case(rng), "fork"   # exact ties at the pruning boundary (symmetric fork, width set)
        case["dyadic"] = False
        case["tseed"] = rng.randint(0, 10 ** 9)
        case["shaped"] = shaped
        return case
    if i % 16 == 9:
        # SqliteMap with parallel roads linked (connect_parallelroads): axis-parallel roads on a dyadic grid / chain, with
        # zero-length roads (two labels in one place), so that collinear roads touch without sharing a node
        case = mcase.gen_mcase(rng, families=("simple", "distance"), width="maybe", tighten_p=0.0, sparse_p=0.3, max_obs=7,
                               kinds=("grid", "chain_dyadic", "grid"), labels=("int",), hostile=False)
        gen.add_hostile(rng, case["map"], selfloop_p=0.0, zero_p=0.9)
        case["trace"] = [[round(p[0] * 8) / 8, round(p[1] * 8) / 8] for p in case["trace"]]
        if rng.random() < 0.6:
            # a straight road that is SPLIT at a duplicated node (two labels in one place, no road between them): the only way
            # on is the link between the two collinear roads that touch there
            n = rng.randint(4, 8)
            along_x = rng.random() < 0.5
            row = float(rng.randint(0, 4))
            ids = list(range(1, n + 1))
            pts = [(row, float(j)) if along_x else (float(j), row) for j in range(n)]
            nodes = [[ids[j], list(pts[j])] for j in range(n)]
            edges = []
            brk = rng.randint(1, n - 2)
            dup = n + 1
            nodes.append([dup, list(pts[brk])])
            twoway = rng.random() < 0.4
            for j in range(n - 1):
                a = ids[j] if j != brk else dup
                edges.append([a, ids[j + 1]])
                if twoway:
                    edges.append([ids[j + 1], a])
            side = n + 2
            for _ in range(rng.randint(0, 2)):
                j = rng.randrange(n)
                q = (pts[j][0] + rng.choice([1.0, -1.0, 2.0]), pts[j][1]) if along_x else (pts[j][0], pts[j][1] + rng.choice([1.0, -1.0, 2.0]))
                nodes.append([side, list(q)])
                edges += [[ids[j], side], [side, ids[j]]]
                side += 1
            case["map"] = {"nodes": nodes, "edges": edges, "latlon": False, "kind": "split_road"}
            k0 = rng.randint(0, max(0, brk - 1))
            tr = []
            for j in range(k0, n):
                t = j + rng.choice([0.25, 0.5, 0.75]) if j < n - 1 else j
                off = rng.choice([0.0, 0.125, -0.125, 0.25])
                tr.append([row + off, t] if along_x else [t, row + off])
            case["trace"] = tr[:rng.randint(2, len(tr))] if rng.random() < 0.3 else tr
            case["cfg"]["max_dist"] = rng.choice([None, 1.0, 2.0])
            case["cfg"]["max_dist_init"] = None
            case["cfg"]["min_prob_norm"] = None
        case["links"] = rng.choice([0.25, 0.5, 1.0, 2.0])
        case["dyadic"] = True
        case["tseed"] = rng.randint(0, 10 ** 9)
        return case
    dyadic = rng.random() < 0.5
    kinds = ("grid", "chain_dyadic") if dyadic else ("random", "chain", "grid")
    case = mcase.gen_mcase(rng, width="maybe", tighten_p=0.15, sparse_p=0.0 if dyadic else 0.3, max_obs=8, kinds=kinds,
                           labels=("int", "intperm", "intperm", "gap"), hostile=True)
    if dyadic:
        # dyadic trace so that translation is exact
        case["trace"] = [[round(p[0] * 8) / 8, round(p[1] * 8) / 8] for p in case["trace"]]
    case["dyadic"] = dyadic
    case["tseed"] = rng.randint(0, 10 ** 9)
    return case


def apply(case, t, rng):
    """-> (transformed case, key map function on node labels)"""
    m = case["map"]
    cfg = dict(case["cfg"])
    tr = case["trace"]
    labs = [l for l, _ in m["nodes"]]
    ren = {l: l for l in labs}
    nodes, edges = [list(n) for n in m["nodes"]], [list(e) for e in m["edges"]]
    if t == "rename_str":
        ren = {l: "node_%s" % l for l in labs}
    elif t == "rename_reverse":
        srt = sorted(labs)
        ren = {l: "r%05d" % (len(srt) - k) for k, l in enumerate(srt)}
    elif t == "rename_nested":
        # names that are prefixes / substrings of each other (1, 11, 111, ... or a, aa, aaa, ...), randomly assigned:
        # any comparison of labels other than equality of the whole label shows
        order = list(labs)
        rng.shuffle(order)
        if rng.random() < 0.6 or case.get("links"):
            ren = {l: int("1" * (k + 1)) for k, l in enumerate(order)}
        else:
            ch = rng.choice(["a", "-", "1-"])
            ren = {l: ch * (k + 1) for k, l in enumerate(order)}
    elif t == "reorder":
        rng.shuffle(nodes)
        rng.shuffle(edges)
    elif t == "swap_axes":
        nodes = [[l, [p[1], p[0]]] for l, p in nodes]
        tr = [[p[1], p[0]] for p in tr]
    elif t.startswith("scale"):
        s = 2.0 ** int(t[5:])
        nodes = [[l, [p[0] * s, p[1] * s]] for l, p in nodes]
        tr = [[p[0] * s, p[1] * s] for p in tr]
        for k in ("obs_noise", "obs_noise_ne", "dist_noise", "dist_noise_ne", "max_dist", "max_dist_init"):
            if cfg.get(k) is not None:
                cfg[k] = cfg[k] * s
    elif t == "translate":
        off = (float(rng.choice([-1, 1]) * 2 ** rng.randint(3, 20)), float(rng.randint(-2 ** 16, 2 ** 16)))
        nodes = [[l, [p[0] + off[0], p[1] + off[1]]] for l, p in nodes]
        tr = [[p[0] + off[0], p[1] + off[1]] for p in tr]
    nodes = [[ren[l], p] for l, p in nodes]
    edges = [[ren[a], ren[b]] for a, b in edges]
    m2 = dict(m)
    m2["nodes"], m2["edges"] = nodes, edges
    if m.get("linked"):
        m2["linked"] = [[[ren[a], ren[b]], [ren[c], ren[d]]] for (a, b), (c, d) in m["linked"]]
    out = {"map": m2, "trace": tr, "cfg": cfg}
    if case.get("links"):
        out["links"] = case["links"] * (2.0 ** int(t[5:]) if t.startswith("scale") else 1.0)
    return out, ren


_SQL = {"scratch": None, "open": []}


def run(case):
    if case.get("links"):
        sm = build.make_sqlite(case["map"], _SQL["scratch"])
        _SQL["open"].append(sm)
        sm.connect_parallelroads(dist=case["links"])
        mt = build.make_matcher(sm, case["cfg"])
    else:
        mt = build.make_matcher(build.make_inmem(case["map"]), case["cfg"])
    r = mt.match(build.trace(case["trace"]))
    return mt, build.canon(mt, r)


def image(path, ren):
    out = []
    for k, lp in path:
        kk = [ren.get(x, x) if j < len(k) - 2 else x for j, x in enumerate(k)]
        out.append(kk)
    return out


def near_tie_at_pruning_boundary(mt_a, mt_b, where, keymap=None):
    """Evidence for the recorded finding 'ulp-level near-tie at the pruning boundary': the two lattices first differ in WHICH
    candidates of one layer the width pruning postponed, and every candidate that is postponed in one run only is, in the run
    that postponed it, within a few ulps of (but not equal to) the least probable candidate that was kept - an exact tie in the
    other run, broken by one rounding in this one (twin edges a->b / b->a give d and d+ulp; x**2 through libm pow is not
    bitwise homogeneous under scaling by powers of two)."""
    i, k = where

    def layer(mt):
        col = (mt.lattice or {}).get(i)
        if col is None or k >= len(col.o):
            return {}
        return {key: e for key, e in col.o[k].items() if not e.stop}
    A, B = layer(mt_a), layer(mt_b)
    if keymap:
        A = {tuple(keymap(key)): e for key, e in A.items()}
    if set(A) != set(B):
        return False
    found = False
    for key in A:
        pa, pb = A[key].delayed > mt_a.expand_now, B[key].delayed > mt_b.expand_now
        if pa == pb:
            continue
        lay, mt_, e = (A, mt_a, A[key]) if pa else (B, mt_b, B[key])
        kept = [x.logprob for x in lay.values() if not x.delayed > mt_.expand_now]
        if not kept:
            return False
        vmin = min(kept)
        gap = abs(e.logprob - vmin)
        if not (0 < gap <= 8 * 2.220446049250313e-16 * max(abs(vmin), abs(e.logprob), 1e-300)):
            return False
        found = True
    return found


def translation_borderline(case, mt_base):
    cfg = case["cfg"]
    model = MapModel(case["map"])
    tr = case["trace"]
    thr = [x for x in (cfg.get("max_dist"), cfg.get("max_dist_init")) if x]
    if cfg.get("max_dist") and not cfg.get("max_dist_init"):
        thr.append(cfg["max_dist"])
    if thr:
        for p in tr:
            ds = [model.pt_edge(p, e)[0] for e in model.edges] + [model.dist(p, q) for q in model.coords.values()]
            for d in ds:
                for t in thr:
                    if abs(d - t) <= 1e-6 * t:
                        return True
    if thr and cfg.get("non_emitting"):
        # non-emitting states are cut off on their distance to the SEGMENT between two consecutive observations
        from .. import refgeo as rg
        for p, q in zip(tr, tr[1:]):
            ds = [float(rg.pl_segseg(model.coords[a], model.coords[b], tuple(p[:2]), tuple(q[:2]))) for a, b in model.edges]
            ds += [float(rg.pl_point_segment(c_, tuple(p[:2]), tuple(q[:2]))[0]) for c_ in model.coords.values()]
            for d in ds:
                for t in thr:
                    if abs(d - t) <= 1e-6 * t:
                        return True
    if cfg.get("min_prob_norm"):
        lim = math.log(cfg["min_prob_norm"])
        # candidates that were dropped are not in the lattice: approximate their score by every (entry + one more worst-case step)
        for col in mt_base.lattice.values():
            for layer in col.o:
                for e in layer.values():
                    if abs(e.logprob / e.length - lim) <= 1e-6 * max(1.0, abs(lim)):
                        return True
        return "min_prob"  # dropped candidates cannot be inspected: translation is only judged without min_prob_norm
    return False


def check_case(ctx, case):
    _SQL["scratch"] = ctx.scratch
    try:
        return _check_case(ctx, case)
    finally:
        for sm in _SQL["open"]:
            try:
                build.close_sqlite(sm)
            except Exception:
                pass
        _SQL["open"] = []


def _check_case(ctx, case):
    base = {"map": case["map"], "trace": case["trace"], "cfg": case["cfg"]}
    if case.get("links"):
        base["links"] = case["links"]
        ctx.count("linked_sqlite_base_cases")
    try:
        mt0, c0 = run(base)
    except Exception:
        ctx.count("base_raised")
        return
    ctx.count("base_cases")
    if mt0.lattice and any(len([x for x in col.values(0) if not x.stop]) >= 2 for col in mt0.lattice.values()):
        ctx.count("base_cases_nontrivial")
        ctx.nontriv(base)
    rng = random.Random(case["tseed"])
    fam = case["cfg"]["family"]
    if case.get("shaped"):
        ctx.count(f"shaped_class:{case['shaped']}")
    if case.get("links") and mt0.map.db.execute("SELECT count(*) FROM close_edges").fetchone()[0]:
        ctx.count("linked_sqlite_base_cases_with_links")
    for t in TRANSFORMS:
        if fam == "newsonkrumm" and t.startswith("scale"):
            continue
        if case.get("links") and t in ("rename_str", "rename_reverse"):
            continue   # SqliteMap stores integer ids   # emissions are scored with a probability DENSITY (norm.logpdf): changes by log(s) per observation by construction
        src = case
        if t == "translate":
            if not case["dyadic"]:
                continue
            # "without width pruning": the sibling pair is (base', T(base')) with width and min_prob_norm removed
            # (candidates dropped by min_prob_norm cannot be inspected for borderline scores)
            cfg2 = dict(case["cfg"])
            cfg2["width"] = None
            cfg2["min_prob_norm"] = None
            src = {**case, "cfg": cfg2}
            base = {"map": src["map"], "trace": src["trace"], "cfg": cfg2}
            if case.get("links"):
                base["links"] = case["links"]
            try:
                mt0, c0 = run(base)
            except Exception:
                ctx.count("base_raised")
                continue
            if translation_borderline(src, mt0):
                ctx.count("translate_skipped_borderline")
                continue
        tc, ren = apply(src, t, rng)
        try:
            mt1, c1 = run(tc)
        except Exception as e:
            ctx.violation(f"C16:{t.rstrip('-0123456789')}:transformed-run-raises-{type(e).__name__}:{fam}", {"base": base, "transform": t, "transformed": tc}, repr(e))
            continue
        ctx.evaluated()
        ctx.count(f"transform:{t}")
        tt = t.rstrip("-0123456789")
        rel = 1e-7 if t == "translate" else 1e-9
        wit = {"base": base, "transform": t, "transformed": tc}
        mode = ("ne-on" if src["cfg"]["non_emitting"] else "ne-off") + (":width" if src["cfg"]["width"] else "")
        def report(kind, text):
            # fault localisation: where do the two lattices diverge first, and is that an exact tie resolved by listing order
            # inside one of the two order-dependent search heuristics (recorded findings), or something else?
            mech = None
            if t in ("rename_str", "rename_reverse", "rename_nested", "reorder"):
                div = oracles.first_lattice_divergence(mt0, mt1, keymap=lambda key: [ren.get(x, x) if j < len(key) - 2 else x for j, x in enumerate(key)])
                mech = oracles.order_dependence_mechanism(src["cfg"], div)
                text += f" | first lattice divergence: {div}"
            if not mech and t.startswith("scale") and src["cfg"]["width"]:
                div = oracles.first_lattice_divergence(mt0, mt1)
                if div and div["kind"] == "delayed" and near_tie_at_pruning_boundary(mt0, mt1, div["where"]):
                    ctx.violation("C16:scale:near-tie-within-ulps-at-the-pruning-boundary", wit, f"{t}: {kind}: {text} | {div}")
                    return
            if mech:
                ctx.violation(f"C16:order-dependent:{mech}", wit, f"{t}: {kind}: {text}")
            else:
                ctx.violation(f"C16:{tt}:{kind}:{fam}:{mode}", wit, f"{t}: {text}")
        if c0["empty"] != c1["empty"] or c0["idx"] != c1["idx"]:
            report("index-differs", f"base idx {c0['idx']} empty {c0['empty']}; transformed idx {c1['idx']} empty {c1['empty']}")
            continue
        if c0["empty"]:
            continue
        if not oracles.close(c0["best"], c1["best"], rel):
            report("best-probability-differs", f"base {c0['best']!r}, transformed {c1['best']!r}")
            continue
        if image(c0["path"], ren) == [k for k, _ in c1["path"]]:
            ctx.count("paths_image_identical")
        else:
            p0, p1 = c0["path"][-1][1], c1["path"][-1][1]
            img = list(zip(image(c0["path"], ren), [lp for _, lp in c0["path"]]))
            if oracles.tie_induced(img, c1["path"], tol=(1e-7 if t == "translate" else 1e-12)):
                ctx.count("paths_differ_exact_tie")
            else:
                report("path-differs-without-tie", f"base path total {p0!r}, transformed {p1!r}")
    ctx.sample(base)


def replay_case(ctx, wit):
    if "base" not in wit:
        return check_case(ctx, wit)
    mt0, c0 = run(wit["base"])
    mt1, c1 = run(wit["transformed"])
    t = wit["transform"]
    rel = 1e-7 if t == "translate" else 1e-9
    if c0["empty"] != c1["empty"] or c0["idx"] != c1["idx"] or (not c0["empty"] and not oracles.close(c0["best"], c1["best"], rel)):
        mech = None
        if t in ("rename_str", "rename_reverse", "rename_nested", "reorder"):
            # the image of a base key under the renaming is recovered from the two maps (same node order in both specs)
            ren = {a[0]: b[0] for a, b in zip(wit["base"]["map"]["nodes"], wit["transformed"]["map"]["nodes"])} if t != "reorder" else {}
            div = oracles.first_lattice_divergence(mt0, mt1, keymap=lambda key: [ren.get(x, x) if j < len(key) - 2 else x for j, x in enumerate(key)])
            mech = oracles.order_dependence_mechanism(wit["base"]["cfg"], div)
        if mech:
            ctx.violation(f"C16:order-dependent:{mech}", wit, f"{t}: base idx {c0['idx']} best {c0['best']!r}; transformed idx {c1['idx']} best {c1['best']!r}")
            return
        if t.startswith("scale") and wit["base"]["cfg"].get("width"):
            div = oracles.first_lattice_divergence(mt0, mt1)
            if div and div["kind"] == "delayed" and near_tie_at_pruning_boundary(mt0, mt1, div["where"]):
                ctx.violation("C16:scale:near-tie-within-ulps-at-the-pruning-boundary", wit, f"{t}: base idx {c0['idx']} best {c0['best']!r}; transformed idx {c1['idx']} best {c1['best']!r} | {div}")
                return
        ctx.violation(f"C16:{t.rstrip('-0123456789')}:replayed-difference", wit, f"base idx {c0['idx']} best {c0['best']!r}; transformed idx {c1['idx']} best {c1['best']!r}")


# no result depends on the log level: a tenth of the cases runs with the package logger at DEBUG (replayable: the flag is
# part of the case / of the recorded witness)
_dbg_gen, _dbg_chk = env.debug_dimension(0.1)
gen_case = _dbg_gen(gen_case)
check_case = _dbg_chk(check_case)

TECHNIQUE = "runtime monitoring: metamorphic differential monitor over sibling executions (base case vs its image under exact relabelling / reordering / axis swap / 2^k scaling / translation)"
LEVEL_TEXT = ("{Q} (quick) / {T} (thorough) base cases x up to 10 exact transformations; index and best probability of the transformed run must equal "
              "the base run's, and the best path must be the image of the base path unless the optimum is an exact tie. Held-on-observed.")
LEVEL_NOTE = "Order-dependence is fault-localised by comparing the two lattices layer by layer (first divergence + exact-tie evidence); two heuristic mechanisms are recorded findings, a difference in how the width pruning treats ties never is. Trusted: exactness of the transformations in binary floating point (powers of two, dyadic coordinates for translation)."
