"""C12 Map backends are interchangeable.

Monitor shape: differential monitor over sibling executions (the same graph in InMemMap and in
SqliteMap) plus a dict-of-sets model as third opinion, so that a disagreement can be attributed
to one backend.
"""
import math

from .. import env  # noqa: F401
from .. import gen, build
from ..mapmodel import MapModel

ID = "C12"
CASES = {"quick": 3000, "thorough": 40000}
MIN_CASES_PER_SHARD = 20
CASE_TIMEOUT = 60
RULE = ("one case = one integer-labelled random directed graph (3..12 nodes, one-way and two-way streets, anisotropic extent so that "
        "axis mix-ups show, unit scale or ~1e7 offsets, bulk or single inserts, repeated adds of an existing label with the same or other coordinates, 25 % with the package logger at DEBUG, 30 % of the SQLite maps in a reused database file) loaded in both backends, unbounded nodes_closeto/edges_closeto at the trace starts, 6 boxes (random, the bounding "
        "box, boxes with a node exactly on the border) and 2 traces x edge-state matcher configurations without distance cut-off. "
        "Non-trivial = >= 3 nodes and x-extent / y-extent differ by more than 2x; distinct = hash of the graph")
ANCHORS = [("leuvenmapmatching/map/sqlite.py", "SqliteMap.bb"),
           ("leuvenmapmatching/map/sqlite.py", "SqliteMap.all_nodes"),
           ("leuvenmapmatching/map/sqlite.py", "SqliteMap.all_edges"),
           ("leuvenmapmatching/map/sqlite.py", "SqliteMap.nodes_nbrto"),
           ("leuvenmapmatching/map/sqlite.py", "SqliteMap.edges_nbrto"),
           ("leuvenmapmatching/map/sqlite.py", "SqliteMap.add_node"),
           ("leuvenmapmatching/map/sqlite.py", "SqliteMap.add_nodes"),
           ("leuvenmapmatching/map/sqlite.py", "SqliteMap.add_edge"),
           ("leuvenmapmatching/map/inmem.py", "InMemMap.nodes_nbrto"),
           ("leuvenmapmatching/map/inmem.py", "InMemMap.edges_nbrto"),
           ("leuvenmapmatching/map/inmem.py", "InMemMap.bb")]
FLOORS = {"box_queries": 1000, "border_boxes": 150, "match_pairs": 300, "match_pairs_complete": 100,
          "nbr_queries": 1500, "single_insert_graphs": 50, "big_magnitude_graphs": 50, "bb_compared": 200, "repeated_node_adds": 200, "grown_graphs": 200, "debug_level_graphs": 300, "reused_database_files": 400, "closeto_compared": 2000}
ASSUMPTIONS = ["matching is compared on index and best probability (1e-9 relative), not on the path: neighbour order differs between "
               "backends and ties may be broken differently",
               "matcher configurations have no max_dist / max_dist_init (unbounded initial radius), as the property states"]


def gen_case(rng, i, tier):
    n = rng.randint(3, 12)
    big = rng.random() < 0.3
    ys, xs = rng.choice([(1.0, 8.0), (8.0, 1.0), (3.0, 3.0), (1.0, 20.0)])
    base = (5e6 + rng.randint(0, 10 ** 6), 1e7 + rng.randint(0, 10 ** 6)) if big else (0.0, 0.0)
    dyadic = rng.random() < 0.4
    pts = []
    while len(pts) < n:
        if dyadic:
            p = (rng.randint(0, 16) / 16 * ys * 4, rng.randint(0, 16) / 16 * xs * 4)
        else:
            p = (rng.uniform(0, ys * 4), rng.uniform(0, xs * 4))
        if p not in pts:
            pts.append(p)
    m = gen._finish(pts, gen._backbone(n, rng), rng, rng.choice([0.0, 0.3, 0.7]), "gap" if rng.random() < 0.3 else "int", "c12")
    m = gen.transform_map(m, 1.0, base)
    c = gen.coords(m)
    boxes = []
    yy = sorted(p[0] for p in c.values())
    xx = sorted(p[1] for p in c.values())
    for _ in range(3):
        y0, y1 = sorted([rng.uniform(yy[0] - 1, yy[-1] + 1), rng.uniform(yy[0] - 1, yy[-1] + 1)])
        x0, x1 = sorted([rng.uniform(xx[0] - 1, xx[-1] + 1), rng.uniform(xx[0] - 1, xx[-1] + 1)])
        boxes.append({"bb": [y0, x0, y1, x1], "cls": "random"})
    for _ in range(2):  # nodes exactly on the border
        p, q = rng.choice(list(c.values())), rng.choice(list(c.values()))
        boxes.append({"bb": [min(p[0], q[0]), min(p[1], q[1]), max(p[0], q[0]), max(p[1], q[1])], "cls": "border"})
    boxes.append({"bb": [yy[0], xx[0], yy[-1], xx[-1]], "cls": "bbox"})
    local = gen.transform_map(m, 1.0, (-base[0], -base[1]))
    traces, cfgs = [], []
    for _ in range(2):
        tr = gen.gen_trace(rng, local, k=rng.randint(1, 7), noise=rng.choice([0.05, 0.3]),
                           kind=rng.choice(["walk", "walk", "sparse", "outlier"]))
        traces.append(gen.transform_trace(tr, 1.0, base))
        cfg = gen.gen_cfg(rng, families=("simple", "distance"), width="maybe", cut=False)
        cfg["min_prob_norm"] = rng.choice([None, None, 0.5, 0.1, 0.001])
        cfgs.append(cfg)
    # repeated adds of an existing label (OSM ways share nodes): both backends keep the FIRST location
    dups = []
    if rng.random() < 0.35:
        labs = [l for l, _ in m["nodes"]]
        for l in rng.sample(labs, min(len(labs), rng.randint(1, 3))):
            p0 = c[l]
            if rng.random() < 0.5:
                dups.append([l, [p0[0], p0[1]]])
            else:
                dups.append([l, [p0[0] + rng.choice([-3.0, 2.5, 7.0]), p0[1] + rng.choice([1.5, -4.0, 0.0])]])
    grow = None
    if rng.random() < 0.4:
        labs = [l for l, _ in m["nodes"]]
        newl = max(labs) + rng.randint(1, 9)
        p0 = c[rng.choice(labs)]
        tgt = rng.sample(labs, min(len(labs), rng.randint(1, 3)))
        ge = []
        for t_ in tgt:
            ge.append([t_, newl])
            if rng.random() < 0.6:
                ge.append([newl, t_])
        # plus a new road between two existing nodes
        a_, b_ = rng.sample(labs, 2)
        if [a_, b_] not in m["edges"]:
            ge.append([a_, b_])
        grow = {"node": [newl, [p0[0] + rng.uniform(0.5, 2.0), p0[1] + rng.uniform(0.5, 2.0)]], "edges": ge}
    return {"map": m, "boxes": boxes, "traces": traces, "cfgs": cfgs, "bulk": rng.random() < 0.6, "big": big, "dups": dups, "grow": grow,
            "debug": rng.random() < 0.25, "prior": build.prior_spec(rng) if rng.random() < 0.3 else None}


def close(a, b):
    return abs(a - b) <= 1e-9 * max(1.0, abs(a), abs(b))


def who(expected, got_im, got_sq):
    """attribute a disagreement to a backend with the model's answer as the third opinion."""
    if got_im == expected and got_sq != expected:
        return "sqlite-wrong"
    if got_sq == expected and got_im != expected:
        return "inmem-wrong"
    if got_im != got_sq:
        return "both-differ-from-model"
    return "both-agree-but-differ-from-model"


def check_case(ctx, case):
    # interchangeability does not depend on the log level: a quarter of the graphs is built and queried with the package
    # logger at DEBUG (every logger.debug argument and every isEnabledFor(DEBUG) branch of the backends is then executed)
    if case.get("debug"):
        ctx.count("debug_level_graphs")
    with env.debug_level(bool(case.get("debug"))):
        _check_case(ctx, case)


def _closeto_sig(res, kind):
    if kind == "nodes":
        return sorted((l, tuple(p)) for _, l, p in res)
    return sorted((l1, tuple(p1), l2, tuple(p2)) for _, l1, p1, l2, p2, _, _ in res)


def _check_case(ctx, case):
    m = case["map"]
    model = MapModel(m)
    im = build.make_inmem(m)
    # 30 %: the database file is reused (an earlier map with the same labels at other places, parallel roads linked, lived in it)
    sm = build.make_sqlite(m, ctx.scratch, bulk=case["bulk"], prior=case.get("prior"))
    if case.get("prior"):
        ctx.count("reused_database_files")
    ctx.evaluated()
    for l, loc in case.get("dups", []):
        ctx.count("repeated_node_adds")
        im.add_node(l, (loc[0], loc[1]))
        try:
            sm.add_node(l, (loc[0], loc[1]), ignore_doubles=True)
        except Exception as e:
            ctx.violation(f"C12:repeated-add_node-raises-{type(e).__name__}:sqlite", case, repr(e))
    if not case["bulk"]:
        ctx.count("single_insert_graphs")
    if case["big"]:
        ctx.count("big_magnitude_graphs")
    labs = sorted(model.coords)
    try:
        # size, labels, coordinates
        if im.size() != sm.size() or im.size() != len(labs):
            ctx.violation("C12:size-differs", case, f"inmem {im.size()} sqlite {sm.size()} model {len(labs)}")
        if sorted(im.labels()) != sorted(sm.labels()) or sorted(sm.labels()) != labs:
            ctx.violation("C12:labels-differ", case, f"inmem {sorted(im.labels())} sqlite {sorted(sm.labels())}")
        for l in labs:
            a, b = tuple(im.node_coordinates(l)), tuple(sm.node_coordinates(l))
            if a != b or a != model.coords[l]:
                ctx.violation(f"C12:node_coordinates:{who(model.coords[l], a, b)}", case, f"node {l}: inmem {a} sqlite {b} model {model.coords[l]}")
        # neighbours
        for l in labs:
            ctx.count("nbr_queries")
            exp = sorted((b, model.coords[b]) for b in model.out_nbrs(l) if b != l)
            a = sorted((x, tuple(p)) for x, p in im.nodes_nbrto(l) if x != l)
            b = sorted((x, tuple(p)) for x, p in sm.nodes_nbrto(l) if x != l)
            if a != b or a != exp:
                ctx.violation(f"C12:nodes_nbrto:{who(exp, a, b)}", case, f"node {l}: inmem {a} sqlite {b} model {exp}")
        for e in model.edges:
            ctx.count("nbr_queries")
            l2 = e[1]
            exp = sorted((l2, model.coords[l2], b, model.coords[b]) for b in model.out_nbrs(l2) if b != l2)
            a = sorted((x1, tuple(p1), x2, tuple(p2)) for x1, p1, x2, p2 in im.edges_nbrto(e) if x1 != x2)
            b = sorted((x1, tuple(p1), x2, tuple(p2)) for x1, p1, x2, p2 in sm.edges_nbrto(e) if x1 != x2)
            if a != b or a != exp:
                ctx.violation(f"C12:edges_nbrto:{who(exp, a, b)}", case, f"edge {e}: inmem {a} sqlite {b} model {exp}")
        # listings
        exp = sorted((a, model.coords[a], b, model.coords[b]) for a, b in model.edges)
        a = sorted((x1, tuple(p1), x2, tuple(p2)) for x1, p1, x2, p2 in im.all_edges())
        b = sorted((x1, tuple(p1), x2, tuple(p2)) for x1, p1, x2, p2 in sm.all_edges())
        if a != b or a != exp:
            ctx.violation(f"C12:all_edges:{who(exp, a, b)}", case, f"inmem {a[:4]}.. sqlite {b[:4]}.. model {exp[:4]}..")
        exp = sorted((l, model.coords[l]) for l in labs)
        a = sorted((l, tuple(p)) for l, p in im.all_nodes())
        b = sorted((l, tuple(p)) for l, p in sm.all_nodes())
        if a != b or a != exp:
            ctx.violation(f"C12:all_nodes:{who(exp, a, b)}", case, f"inmem {a[:4]}.. sqlite {b[:4]}..")
        # bounding box
        ctx.count("bb_compared")
        exp = model.bbox()
        a, b = tuple(im.bb()), tuple(sm.bb())
        # the SQLite index stores float32 rounded outwards: allow that rounding, nothing more
        def bb_ok(g):
            if g is None or len(g) != 4 or any(x is None for x in g):
                return False
            for gv, ev, lower in zip(g, exp, (True, True, False, False)):
                slack = 2.5e-7 * max(1.0, abs(ev))
                if lower and not (ev - slack <= gv <= ev + 1e-12 * max(1.0, abs(ev))):
                    return False
                if not lower and not (ev - 1e-12 * max(1.0, abs(ev)) <= gv <= ev + slack):
                    return False
            return True
        if not bb_ok(a) or not bb_ok(b):
            w = "sqlite-wrong" if bb_ok(a) else ("inmem-wrong" if bb_ok(b) else "both-wrong")
            ctx.violation(f"C12:bb:{w}", case, f"inmem {a} sqlite {b} model (y_min, x_min, y_max, x_max) = {exp}")
        # box-restricted node listing
        for bx in case["boxes"]:
            ctx.count("box_queries")
            if bx["cls"] != "random":
                ctx.count("border_boxes")
            bb = tuple(bx["bb"])
            exp = sorted(model.nodes_in_box(bb))
            a = sorted(l for l, _ in im.all_nodes(bb=bb))
            b = sorted(l for l, _ in sm.all_nodes(bb=bb))
            if a != b or a != exp:
                ctx.violation(f"C12:all_nodes(bb):{who(exp, a, b)}:{bx['cls']}", case, f"bb {bb}: inmem {a} sqlite {b} model {exp}")
        # the maps grow after their first use (new node, new roads): every answer must follow
        if case.get("grow"):
            ctx.count("grown_graphs")
            g = case["grow"]
            im.add_node(g["node"][0], tuple(g["node"][1]))
            for a, b in g["edges"]:
                im.add_edge(a, b)
            # the SQLite map grows in one of the documented ways: plain calls, deferred commit, deferred commit and index
            # (the bulk-loading idiom: no_commit / no_index, then reindex_*), or one bulk call
            mode = ["plain", "no_commit", "no_commit_no_index", "bulk"][len(g["edges"]) % 4]
            ctx.count(f"grown_graphs:{mode}")
            if mode == "plain":
                sm.add_node(g["node"][0], tuple(g["node"][1]))
                for a, b in g["edges"]:
                    sm.add_edge(a, b)
            elif mode == "no_commit":
                sm.add_node(g["node"][0], tuple(g["node"][1]), no_commit=True)
                for a, b in g["edges"]:
                    sm.add_edge(a, b, no_commit=True)
                sm.db.commit()
            elif mode == "no_commit_no_index":
                sm.add_node(g["node"][0], tuple(g["node"][1]), no_commit=True, no_index=True)
                for a, b in g["edges"]:
                    sm.add_edge(a, b, no_commit=True, no_index=True)
                sm.reindex_nodes()
                sm.reindex_edges()
            else:
                sm.add_nodes([(g["node"][0], tuple(g["node"][1]))])
                sm.add_edges([(a, b) for a, b in g["edges"]])
            m2 = {"nodes": m["nodes"] + [g["node"]], "edges": m["edges"] + [e for e in g["edges"] if e not in m["edges"]], "latlon": False}
            model = MapModel(m2)
            labs = sorted(model.coords)
            if im.size() != sm.size() or im.size() != len(labs):
                ctx.violation("C12:size-differs:after-growing", case, f"inmem {im.size()} sqlite {sm.size()} model {len(labs)}")
            for l in labs:
                exp = sorted((b, model.coords[b]) for b in model.out_nbrs(l) if b != l)
                a = sorted((x, tuple(p)) for x, p in im.nodes_nbrto(l) if x != l)
                b = sorted((x, tuple(p)) for x, p in sm.nodes_nbrto(l) if x != l)
                if a != b or a != exp:
                    ctx.violation(f"C12:nodes_nbrto:{who(exp, a, b)}:after-growing", case, f"node {l}: inmem {a} sqlite {b} model {exp}")
            for e in model.edges:
                l2 = e[1]
                exp = sorted((l2, model.coords[l2], b, model.coords[b]) for b in model.out_nbrs(l2) if b != l2)
                a = sorted((x1, tuple(p1), x2, tuple(p2)) for x1, p1, x2, p2 in im.edges_nbrto(e) if x1 != x2)
                b = sorted((x1, tuple(p1), x2, tuple(p2)) for x1, p1, x2, p2 in sm.edges_nbrto(e) if x1 != x2)
                if a != b or a != exp:
                    ctx.violation(f"C12:edges_nbrto:{who(exp, a, b)}:after-growing", case, f"edge {e}: inmem {a} sqlite {b} model {exp}")
            exp = sorted((a, model.coords[a], b, model.coords[b]) for a, b in model.edges)
            a = sorted((x1, tuple(p1), x2, tuple(p2)) for x1, p1, x2, p2 in im.all_edges())
            b = sorted((x1, tuple(p1), x2, tuple(p2)) for x1, p1, x2, p2 in sm.all_edges())
            if a != b or a != exp:
                ctx.violation(f"C12:all_edges:{who(exp, a, b)}:after-growing", case, f"inmem {a[:4]}.. sqlite {b[:4]}.. model {exp[:4]}..")
        # candidate queries with an unbounded radius (what a matcher without cut-off asks): same items, same distances
        for tr in case["traces"]:
            loc = tuple(tr[0])
            for kind in ("nodes", "edges"):
                ctx.count("closeto_compared")
                try:
                    ra = (im.nodes_closeto if kind == "nodes" else im.edges_closeto)(loc, max_dist=math.inf)
                    rb = (sm.nodes_closeto if kind == "nodes" else sm.edges_closeto)(loc, max_dist=math.inf)
                except Exception as e:
                    ctx.violation(f"C12:{kind}_closeto:raises-{type(e).__name__}", case, f"{e!r} at {loc}")
                    continue
                if kind == "nodes":
                    exp = sorted((l, model.coords[l]) for l in model.coords)
                else:
                    exp = sorted((a, model.coords[a], b, model.coords[b]) for a, b in model.edges if a != b)
                a, b = _closeto_sig(ra, kind), _closeto_sig(rb, kind)
                if kind == "edges":
                    a = [x for x in a if x[0] != x[2]]
                    b = [x for x in b if x[0] != x[2]]
                if a != b or a != exp:
                    ctx.violation(f"C12:{kind}_closeto(unbounded):{who(exp, a, b)}", case, f"at {loc}: inmem {a[:4]}.. ({len(a)}) sqlite {b[:4]}.. ({len(b)}) model ({len(exp)})")
                elif any(not close(x[0], y[0]) for x, y in zip(sorted(ra, key=lambda t: t[0]), sorted(rb, key=lambda t: t[0]))):
                    ctx.violation(f"C12:{kind}_closeto(unbounded):distances-differ", case, f"at {loc}")
        # matching
        for tr, cfg in zip(case["traces"], case["cfgs"]):
            ctx.count("match_pairs")
            res = {}
            for name, mp in (("inmem", im), ("sqlite", sm)):
                mt = build.make_matcher(mp, cfg)
                try:
                    r = mt.match(build.trace(tr))
                    res[name] = build.canon(mt, r)
                except Exception as e:
                    res[name] = {"exc": f"{type(e).__name__}: {e}"}
            a, b = res["inmem"], res["sqlite"]
            if "exc" in a or "exc" in b:
                if ("exc" in a) != ("exc" in b):
                    ctx.violation("C12:match:raises-on-one-backend", case, f"{a if 'exc' in a else b} cfg={cfg} trace={tr}")
                else:
                    ctx.count("match_raises_on_both")
                continue
            if not a["empty"] and a["idx"] == len(tr) - 1:
                ctx.count("match_pairs_complete")
            if a["empty"] != b["empty"] or a["idx"] != b["idx"]:
                ctx.violation("C12:match:index-differs", case, f"inmem idx {a['idx']} empty {a['empty']}; sqlite idx {b['idx']} empty {b['empty']}; cfg={cfg} trace={tr}")
            elif not a["empty"] and not close(a["best"], b["best"]):
                ctx.violation("C12:match:probability-differs", case, f"inmem {a['best']} sqlite {b['best']}; cfg={cfg} trace={tr}")
        c = model.coords
        ys = [p[0] for p in c.values()]
        xs = [p[1] for p in c.values()]
        ey, ex = max(ys) - min(ys), max(xs) - min(xs)
        if len(c) >= 3 and (ey > 2 * ex or ex > 2 * ey):
            ctx.nontriv([m["nodes"], m["edges"]])
        ctx.sample({"map": m, "boxes": case["boxes"][:2], "trace": case["traces"][0], "cfg": case["cfgs"][0]})
    finally:
        build.close_sqlite(sm)


TECHNIQUE = "runtime monitoring: differential monitor over sibling executions (InMemMap vs SqliteMap on the same graph) with a dict-of-sets model as third opinion"
LEVEL_TEXT = ("{Q} (quick) / {T} (thorough) generated integer-labelled graphs loaded in both backends; every listing, neighbour, bounding-box and "
              "box-restricted query and 2 edge-state matches per graph are compared between the backends and with the model (which attributes a "
              "disagreement to one backend). Held-on-observed.")
LEVEL_NOTE = ("Trusted: sqlite3, the model. Bounding boxes are allowed the float32 outward rounding of the R-tree index (2.5e-7 relative); "
              "matching is compared on index and best probability only.")
