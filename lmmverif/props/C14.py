"""C14 Geodesic primitives agree with spherical geometry.

Monitor shape: reference-model oracle.  Every call of the real latitude-longitude primitives on a
generated configuration is judged by an independent 3-D-vector computation on the 6371 km sphere
(refgeo).  The oracle validates itself in every shard (against the exact planar reference on
metre-scale configurations and against dense sampling of both arcs); a failed self-validation
makes the run inconclusive.
"""
import math

from .. import env  # noqa: F401
from .. import refgeo as rg
from leuvenmapmatching.util import dist_latlon as dl

ID = "C14"
CASES = {"quick": 300000, "thorough": 3000000}
MIN_CASES_PER_SHARD = 400
CASE_TIMEOUT = 10
R = rg.R
RULE = ("one case = one generated configuration on the sphere (|lat|<=70, |lon|<=170): a segment of length 0.1 m..5 km "
        "with a query point within 3 lengths (classes: random, abeam of an end point, before the start, beyond the end, on "
        "the segment), a second segment for segment/segment, or a point and radius 1 m..20 km for the box. Non-trivial = "
        "distinct (length decade, clamped/inside, hemisphere, quadrant) bucket member with a non-zero distance; distinct = "
        "hash of the coordinates")
ANCHORS = [("leuvenmapmatching/util/dist_latlon.py", "distance_point_to_segment"),
           ("leuvenmapmatching/util/dist_latlon.py", "distance_segment_to_segment"),
           ("leuvenmapmatching/util/dist_latlon.py", "box_around_point"),
           ("leuvenmapmatching/util/dist_latlon.py", "destination_radians"),
           ("leuvenmapmatching/util/dist_latlon.py", "distance_haversine_radians"),
           ("leuvenmapmatching/util/dist_latlon.py", "bearing_radians")]
PT_CLASSES = ["random", "abeam_start", "abeam_end", "before", "beyond", "on_segment", "at_endpoint"]
FLOORS = {f"ptseg_class:{c}": 150 for c in PT_CLASSES}
FLOORS.update({"ptseg_judged": 4000, "segseg_judged": 2500, "box_judged": 800, "dest_judged": 4000,
               "bucket_clamped": 1000, "bucket_inside": 1000, "bucket_south": 1500, "bucket_north": 1500,
               "segseg_crossing": 100})
FLOORS["dest_long_distance"] = 3000
FLOORS_FIXED = {"oracle_selfcheck_planar": 100, "oracle_selfcheck_sampling": 30}
ASSUMPTIONS = ["tolerances: distance() 1 mm + 1e-9 rel; point/segment 0.25 m (the cross-/along-track formulation has an "
               "intrinsic R*sqrt(eps) ~ 0.1 m noise floor); segment/segment 0.25 m + 2*ext^2*(1+tan|lat|)/R (analytic bound "
               "of the local planar frame)",
               "poles and the antimeridian are excluded by the property itself"]
PT_TOL = 0.25


def _place(rng):
    return (rng.uniform(-70, 70), rng.uniform(-170, 170))


def gen_case(rng, i, tier):
    r = rng.random()
    a = _place(rng)
    if rng.random() < 0.04:
        # "distance is the great-circle distance": also beyond street scale (5 km .. 3000 km), staying away from the poles
        # and the antimeridian
        for _ in range(20):
            a = (rng.uniform(-60, 60), rng.uniform(-140, 140))
            b = rg.gc_dest(a, rng.uniform(0, 360), 10 ** rng.uniform(3.7, 6.5))
            if abs(b[0]) < 80 and abs(b[1]) < 175 and abs(b[1] - a[1]) < 170:
                return {"fn": "dest", "cls": "long", "a": a, "b": b}
    L = 10 ** rng.uniform(-1, 3.7)
    brg = rng.choice([0, 90, 180, 270, 45, rng.uniform(0, 360), rng.uniform(0, 360)])
    b = rg.gc_dest(a, brg, L)
    if r < 0.5:
        cls = PT_CLASSES[i % len(PT_CLASSES)] if rng.random() < 0.7 else "random"
        off = rng.choice([0.0, 0.5, 1.0, 3.0, rng.uniform(0, 3)]) * L
        side = rng.choice([90, -90])
        if cls == "random":
            p = rg.gc_dest(a, rng.uniform(0, 360), rng.uniform(0, 3) * L)
        elif cls == "abeam_start":
            p = rg.gc_dest(a, brg + side, max(off, 0.01))
        elif cls == "abeam_end":
            p = rg.gc_dest(b, rg.gc_bearing(b, a) + side, max(off, 0.01))
        elif cls == "before":
            q = rg.gc_dest(a, brg + 180, rng.uniform(0.01, 3) * L)
            p = rg.gc_dest(q, brg + side, off)
        elif cls == "beyond":
            q = rg.gc_dest(b, rg.gc_bearing(b, a) + 180, rng.uniform(0.01, 3) * L)
            p = rg.gc_dest(q, brg + side, off)
        elif cls == "on_segment":
            p = rg.gc_dest(a, brg, rng.choice([0.25, 0.5, 0.75, rng.random()]) * L)
        else:
            p = rng.choice([a, b])
        return {"fn": "ptseg", "cls": cls, "a": a, "b": b, "p": p, "L": L}
    if r < 0.85:
        kind = rng.choice(["random", "random", "crossing", "parallel", "tjunction", "far", "shared_end", "shared_end", "identical", "shallow_crossing"])
        if kind == "shallow_crossing":
            # two long (1.5-4 km) roads that really cross, at a few milliradians, near the equator where the local frame is best
            a = (rng.uniform(-25, 25), a[1])
            L = rng.uniform(1500, 4000)
            b = rg.gc_dest(a, brg, L)
            mid = rg.gc_dest(a, brg, rng.uniform(0.35, 0.65) * L)
            b2 = brg + math.degrees(rng.uniform(2e-3, 9e-3)) * rng.choice([1, -1])
            c = rg.gc_dest(mid, b2, rng.uniform(0.35, 0.6) * L)
            d = rg.gc_dest(mid, b2 + 180, rng.uniform(0.35, 0.6) * L)
            return {"fn": "segseg", "cls": kind, "a": a, "b": b, "c": c, "d": d, "L": L}
        if kind == "shared_end":
            # consecutive roads: the two segments share one end point bit for bit, in one of the four orientations
            # (f1==t1, f1==t2, f2==t1, f2==t2); a fifth has a zero-length second segment in the shared point
            o = rng.choice(["f1t1", "f1t2", "f2t1", "f2t2"])
            sh = a if o[:2] == "f1" else b
            other = rg.gc_dest(sh, rng.uniform(0, 360), L * 10 ** rng.uniform(-1, 0.5))
            if rng.random() < 0.2:
                other = sh
            c, d = (sh, other) if o[2:] == "t1" else (other, sh)
            return {"fn": "segseg", "cls": kind, "a": a, "b": b, "c": c, "d": d, "L": L, "orient": o}
        if kind == "identical":
            c, d = rng.choice([(a, b), (b, a)])
            if rng.random() < 0.3:
                d = rg.gc_dest(c, rg.gc_bearing(c, d), rng.uniform(0.2, 2) * L)  # collinear overlap from a shared start
            return {"fn": "segseg", "cls": kind, "a": a, "b": b, "c": c, "d": d, "L": L}
        if kind == "crossing":
            m = rg.gc_dest(a, brg, rng.uniform(0.1, 0.9) * L)
            b2 = rng.uniform(0, 360)
            L2 = L * 10 ** rng.uniform(-1, 0.5)
            c = rg.gc_dest(m, b2, rng.uniform(0.1, 0.9) * L2)
            d = rg.gc_dest(m, b2 + 180, rng.uniform(0.1, 0.9) * L2)
        elif kind == "parallel":
            c = rg.gc_dest(a, brg + rng.choice([90, -90]), rng.uniform(0.01, 1) * L)
            c = rg.gc_dest(c, brg, rng.uniform(-1, 1.5) * L)
            d = rg.gc_dest(c, brg + rng.choice([0, 180]) + rng.uniform(-1, 1) * rng.choice([0, 1e-3, 1]), L * 10 ** rng.uniform(-1, 0.3))
        elif kind == "tjunction":
            c = rg.gc_dest(a, brg, rng.uniform(0.1, 0.9) * L)
            d = rg.gc_dest(c, rng.uniform(0, 360), L * 10 ** rng.uniform(-1, 0.5))
        elif kind == "far":
            c = rg.gc_dest(a, rng.uniform(0, 360), rng.uniform(1, 3) * L)
            d = rg.gc_dest(c, rng.uniform(0, 360), L * 10 ** rng.uniform(-1, 0.5))
        else:
            c = rg.gc_dest(a, rng.uniform(0, 360), rng.uniform(0, 3) * L)
            d = rg.gc_dest(c, rng.uniform(0, 360), L * 10 ** rng.uniform(-1, 0.5))
        return {"fn": "segseg", "cls": kind, "a": a, "b": b, "c": c, "d": d, "L": L}
    rad = 10 ** rng.uniform(0, 4.3)
    if rng.random() < 0.3:
        a = (rng.choice([-1, 1]) * rng.uniform(50, 60), a[1])
    return {"fn": "box", "cls": "box", "p": a, "r": rad}


def _bucket(ctx, case, lat, clamped):
    ctx.count("bucket_clamped" if clamped else "bucket_inside")
    ctx.count("bucket_south" if lat < 0 else "bucket_north")
    dec = int(math.floor(math.log10(case.get("L", 1))))
    ctx.count(f"bucket_len_1e{dec}")


def check_ptseg(ctx, case):
    a, b, p = tuple(case["a"]), tuple(case["b"]), tuple(case["p"])
    L = rg.gc_dist(a, b)
    ctx.evaluated()
    ctx.count("ptseg_judged")
    ctx.count(f"ptseg_class:{case['cls']}")
    rd, rt, rq = rg.gc_point_segment(p, a, b)
    import struct
    if int.from_bytes(struct.pack("d", float(p[0]) + float(p[1])), "little") % 4 == 0:
        # the answer to a default call may not depend on what was asked before: a quarter of the judged calls is preceded
        # by calls for the SAME point and segment with other values of the optional arguments
        ctx.count("calls_preceded_by_other_options")
        try:
            if int(abs(p[0]) * 1e6) % 2:
                dl.distance_point_to_segment(p, a, b, constrain=False)
            else:
                dl.distance_point_to_segment(p, a, b, delta=0.25)
        except Exception:
            pass
    try:
        d, pi, t = dl.distance_point_to_segment(p, a, b)
        pi_p, t_p = dl.project(a, b, p)
        d2, pi2, t2 = dl.distance_point_to_segment(p, b, a)
    except Exception as e:
        ctx.violation(f"C14:ptseg:raises-{type(e).__name__}:{case['cls']}", case, repr(e))
        return
    clamped = rt in (0.0, 1.0)
    _bucket(ctx, case, a[0], clamped)
    if rd > 0.5:
        ctx.nontriv([a, b, p])
    where = "clamped" if clamped else "inside"
    if not abs(d - rd) <= PT_TOL:
        ctx.violation(f"C14:ptseg:distance:{where}", case, f"distance {d!r} vs spherical reference {rd!r}")
    if not rg.gc_dist(pi, rq) <= PT_TOL:
        ctx.violation(f"C14:ptseg:projection-point:{where}", case, f"pi={pi!r} vs reference {rq!r} ({rg.gc_dist(pi, rq):.3f} m apart)")
    if not (0 <= t <= 1) or not abs(t - rt) * L <= PT_TOL:
        ctx.violation(f"C14:ptseg:relpos:{where}", case, f"t={t!r} vs reference {rt!r} (L={L:.3f} m)")
    if (pi_p, t_p) != (pi, t):
        ctx.violation("C14:project:disagrees-with-distance_point_to_segment", case, f"{pi_p, t_p} vs {pi, t}")
    sw = max(abs(d - d2), rg.gc_dist(pi, pi2), abs(t - (1 - t2)) * L)
    if not sw <= 2 * PT_TOL:
        ctx.violation(f"C14:ptseg:not-invariant-under-endpoint-swap:{where}", case,
                      f"(d,pi,t)={d, pi, t} vs swapped {d2, pi2, t2}: differs by {sw:.3f} m")
    ctx.count("swap_judged")


def seg_tol(pts):
    ext = max(rg.gc_dist(pts[0], x) for x in pts[1:])
    lat = max(abs(p[0]) for p in pts)
    return PT_TOL + 2 * ext * ext * (1 + math.tan(math.radians(lat))) / R, ext


def check_segseg(ctx, case):
    a, b, c, d = [tuple(case[k]) for k in "abcd"]
    ctx.evaluated()
    ctx.count("segseg_judged")
    ctx.count(f"segseg_class:{case['cls']}")
    tol, ext = seg_tol([a, b, c, d])
    ref = rg.gc_segseg(a, b, c, d)
    if ref == 0.0:
        ctx.count("segseg_crossing")
    try:
        dd, pf, pt, uf, ut = dl.distance_segment_to_segment(a, b, c, d)
    except Exception as e:
        ctx.violation(f"C14:segseg:raises-{type(e).__name__}:{case['cls']}", case, repr(e))
        return
    ctx.nontriv([a, b, c, d])
    _bucket(ctx, case, a[0], uf in (0, 1) or ut in (0, 1))
    kind = "crossing" if ref == 0.0 else "disjoint"
    if not abs(dd - ref) <= tol:
        ctx.violation(f"C14:segseg:distance:{kind}", case, f"distance {dd!r} vs reference {ref!r}, tol {tol:.3f} (extent {ext:.1f} m)")
    if not (0 <= uf <= 1 and 0 <= ut <= 1):
        ctx.violation(f"C14:segseg:relpos-outside-unit:{kind}", case, f"u_f={uf!r} u_t={ut!r}")
        return
    Lf, Lt = rg.gc_dist(a, b), rg.gc_dist(c, d)
    pfe = rg.gc_dest(a, rg.gc_bearing(a, b), uf * Lf) if Lf > 0 else a
    pte = rg.gc_dest(c, rg.gc_bearing(c, d), ut * Lt) if Lt > 0 else c
    if not rg.gc_dist(pf, pfe) <= tol:
        ctx.violation(f"C14:segseg:point-f-not-at-relpos:{kind}", case, f"pf={pf!r}, f(u_f)={pfe!r}")
    if not rg.gc_dist(pt, pte) <= tol:
        ctx.violation(f"C14:segseg:point-t-not-at-relpos:{kind}", case, f"pt={pt!r}, t(u_t)={pte!r}")
    if not abs(rg.gc_dist(pf, pt) - dd) <= 2 * tol:
        ctx.violation(f"C14:segseg:points-do-not-realise-distance:{kind}", case, f"|pf-pt|={rg.gc_dist(pf, pt)!r} vs {dd!r}")
    if case["cls"] == "shared_end":
        # the minimum 0 is attained in the shared point, and only there unless the roads fold back onto each other
        ctx.count(f"segseg_shared_end:{case.get('orient')}")
        sh = a if case["orient"][:2] == "f1" else b
        of, ot = (b if sh == a else a), (d if sh == c else c)
        fold = False
        ptol = tol
        if of != sh and ot != sh:
            dbr = abs((rg.gc_bearing(sh, of) - rg.gc_bearing(sh, ot) + 180) % 360 - 180)
            fold = dbr < 2.0
            # two roads leaving the shared point at angle th are closer than tol to each other up to tol/sin(th) from it:
            # the position of the minimum is only that well conditioned
            if dbr < 90:
                ptol = tol / max(math.sin(math.radians(dbr)), 0.03)
        tol_d, tol = tol, ptol
        if not fold:
            ctx.count("segseg_shared_end_positions_judged")
            if not rg.gc_dist(pf, sh) <= tol:
                ctx.violation(f"C14:segseg:shared-end-point:point-f-not-the-shared-point:{case['orient']}", case, f"pf={pf!r} shared={sh!r} u_f={uf!r}")
            if not rg.gc_dist(pt, sh) <= tol:
                ctx.violation(f"C14:segseg:shared-end-point:point-t-not-the-shared-point:{case['orient']}", case, f"pt={pt!r} shared={sh!r} u_t={ut!r}")
        tol = tol_d
    # invariance under swapping the end points of either segment (u -> 1-u); closest points of (nearly) parallel
    # segments are not unique, so positions are only compared when the reference says the minimum is attained at an end
    for which, args in (("f", (b, a, c, d)), ("t", (a, b, d, c))):
        try:
            d2, pf2, pt2, uf2, ut2 = dl.distance_segment_to_segment(*args)
        except Exception as e:
            ctx.violation(f"C14:segseg:raises-{type(e).__name__}:swapped", case, repr(e))
            continue
        ctx.count("segseg_swap_judged")
        if not abs(d2 - dd) <= 2 * tol:
            ctx.violation(f"C14:segseg:not-invariant-under-endpoint-swap:{which}:{kind}", case,
                          f"distance {dd!r} vs {d2!r} after swapping the end points of segment {which} (tol {2 * tol:.3f})")


def box_bearings(lat, r):
    out = [0.0, 90.0, 180.0, 270.0, 45.0, 135.0, 225.0, 315.0]
    out += [i * 360.0 / 48 for i in range(48)]
    # bearings at which the cap reaches its extreme longitudes: cos(brg) = tan(lat)*tan(r/(2R))... use a fan near E/W
    for k in range(1, 5):
        dlt = math.degrees(k * 0.5 * (r / R) * math.tan(math.radians(lat)))
        out += [90 - dlt, 90 + dlt, 270 - dlt, 270 + dlt]
    return out


def check_box(ctx, case):
    p, r = tuple(case["p"]), case["r"]
    ctx.evaluated()
    ctx.count("box_judged")
    ctx.nontriv([p, r])
    try:
        lat_b, lon_l, lat_t, lon_r = dl.box_around_point(p, r)
    except Exception as e:
        ctx.violation(f"C14:box:raises-{type(e).__name__}", case, repr(e))
        return
    rr = max(0.0, r * (1 - 1e-9) - 1e-6)
    worst = None
    for bg in box_bearings(p[0], r):
        q = rg.gc_dest(p, bg, rr)
        if not (lat_b <= q[0] <= lat_t and lon_l <= q[1] <= lon_r):
            miss = max(lat_b - q[0], q[0] - lat_t, lon_l - q[1], q[1] - lon_r)
            if worst is None or miss > worst[0]:
                worst = (miss, bg, q)
    if worst:
        ctx.violation("C14:box:point-within-radius-outside-box", case,
                      f"p={p} r={r}: point at bearing {worst[1]:.2f} deg, distance {rr:.6f} m = {worst[2]} is outside "
                      f"box {(lat_b, lon_l, lat_t, lon_r)}")


def check_dest(ctx, case):
    """distance is the great-circle distance; destination inverts distance-and-bearing."""
    a, b = tuple(case["a"]), tuple(case["b"])
    ctx.evaluated()
    ctx.count("dest_judged")
    L = rg.gc_dist(a, b)
    d = dl.distance(a, b)
    if not abs(d - L) <= 1e-3 + 1e-9 * L:
        ctx.violation("C14:distance:not-great-circle", case, f"distance({a},{b})={d!r} vs vector reference {L!r}")
    la, lo = math.radians(a[0]), math.radians(a[1])
    brg = dl.bearing_radians(la, lo, math.radians(b[0]), math.radians(b[1]))
    rb = math.radians(rg.gc_bearing(a, b))
    if L > 1e-3:
        db = abs((brg - rb + math.pi) % (2 * math.pi) - math.pi)
        if not db * L <= 1e-3 + 1e-9 * L:
            ctx.violation("C14:bearing:wrong", case, f"bearing {math.degrees(brg)!r} vs reference {math.degrees(rb)!r}")
    la2, lo2 = dl.destination_radians(la, lo, brg, d)
    q = (math.degrees(la2), math.degrees(lo2))
    miss = rg.gc_dist(q, b)
    if not miss <= 1e-3 + 1e-9 * L:
        ctx.violation("C14:destination:does-not-invert-distance-and-bearing", case,
                      f"destination({a}, bearing, {d}) = {q}, {miss:.6f} m away from {b}")
    # independent bearing / distance
    bg2, dist2 = case.get("L", 1.0) * 0 + (hash((a, b)) % 360), L * 1.5 + 1.0
    la3, lo3 = dl.destination_radians(la, lo, math.radians(bg2), dist2)
    q3 = (math.degrees(la3), math.degrees(lo3))
    if abs(q3[0]) < 89 and abs(q3[1]) < 179:
        qr = rg.gc_dest(a, bg2, dist2)
        if not rg.gc_dist(q3, qr) <= 1e-3 + 1e-9 * dist2:
            ctx.violation("C14:destination:wrong", case, f"destination({a},{bg2},{dist2})={q3} vs reference {qr}")


def check_case(ctx, case):
    if case["fn"] == "ptseg":
        check_ptseg(ctx, case)
        check_dest(ctx, case)
        ctx.sample(case)
    elif case["fn"] == "segseg":
        check_segseg(ctx, case)
    elif case["fn"] == "dest":
        ctx.count("dest_long_distance")
        ctx.nontriv([case["a"], case["b"]])
        check_dest(ctx, case)
    else:
        check_box(ctx, case)


def shard_setup(ctx):
    """oracle self-validation; failures raise (=> harness error => inconclusive run)."""
    import random
    rng = random.Random(f"C14-selfcheck:{ctx.seed}:{ctx.shard}")
    for _ in range(40):
        center = _place(rng)
        ext = 10 ** rng.uniform(-2, 1)
        pts = [(rng.uniform(-ext, ext), rng.uniform(-ext, ext)) for _ in range(4)]
        if rng.random() < 0.3:  # force a crossing
            pts[3] = (2 * (pts[0][0] + pts[1][0]) / 2 - pts[2][0], 2 * (pts[0][1] + pts[1][1]) / 2 - pts[2][1])
        ll = rg.ae_place(center, pts)
        ref_pl = rg.pl_segseg(*pts)
        ref_sp = rg.gc_segseg(*ll)
        if abs(ref_pl - ref_sp) > 1e-6 + 1e-6 * ext:
            raise AssertionError(f"spherical oracle disagrees with exact planar oracle: {ref_sp} vs {ref_pl} for {pts} at {center}")
        dp, tp, _ = rg.pl_point_segment(pts[2], pts[0], pts[1])
        ds, ts, _ = rg.gc_point_segment(ll[2], ll[0], ll[1])
        if abs(dp - ds) > 1e-6 + 1e-6 * ext:
            raise AssertionError(f"spherical point/segment oracle disagrees with planar: {ds} vs {dp}")
        ctx.count("oracle_selfcheck_planar")
    for _ in range(8):
        a = _place(rng)
        L = 10 ** rng.uniform(0, 3.7)
        b = rg.gc_dest(a, rng.uniform(0, 360), L)
        c = rg.gc_dest(a, rng.uniform(0, 360), rng.uniform(0, 2) * L)
        d = rg.gc_dest(c, rng.uniform(0, 360), L * rng.uniform(0.2, 2))
        ref = rg.gc_segseg(a, b, c, d)
        n = 60
        Lt = rg.gc_dist(c, d)
        bf, bt = rg.gc_bearing(a, b), rg.gc_bearing(c, d)
        fs = [rg.gc_dest(a, bf, L * k / n) for k in range(n + 1)]
        ts = [rg.gc_dest(c, bt, Lt * k / n) for k in range(n + 1)]
        smin = min(rg.gc_dist(x, y) for x in fs for y in ts)
        if smin < ref - 1e-4 or smin > ref + (L + Lt) / n:
            raise AssertionError(f"spherical segseg oracle disagrees with dense sampling: {ref} vs sampled {smin}")
        ctx.count("oracle_selfcheck_sampling")


TECHNIQUE = "runtime monitoring: reference-model oracle (3-D vector spherical geometry, self-validated) over generated calls of the real geodesic primitives"
LEVEL_TEXT = ("Every call of the real latitude-longitude primitives on {Q} (quick) / {T} (thorough) generated configurations "
              "(segment lengths 0.1 m..5 km, all bearing quadrants, both hemispheres, clamped and interior projections, crossing/"
              "parallel/T segments, radii 1 m..20 km) is judged against an independent vector computation that validates itself "
              "in every shard; held-on-observed within stated tolerances.")
LEVEL_NOTE = ("Trusted: the vector reference (cross-checked against exact planar arithmetic and dense sampling each run), libm. "
              "Tolerances are fixed in DESIGN.md section 3.4; errors below 0.25 m in point/segment results are invisible.")
