"""C05 Cut-offs are honoured and matched positions are true nearest points.

Monitor shape: oracle over every state of the reported best path after every public call:
cut-offs from the configuration, nearest point / relative position / distance of every emitting
state from the exact-rational (planar) or vector (latitude-longitude) reference.
"""
import math

from .. import env  # noqa: F401
from .. import gen, build, mcase, monitors, oracles, refgeo as rg
from ..mapmodel import MapModel

ID = "C05"
CASES = {"quick": 10000, "thorough": 300000}
MIN_CASES_PER_SHARD = 50
CASE_TIMEOUT = 40
RULE = ("one case = generated map x trace (incl. observations beyond segment ends, on nodes, zero-length roads) x configuration (all families, "
        "non-emitting on in 50 %, widths; max_dist / max_dist_init / min_prob_norm random or set to values observed in a first pass) x history; "
        "20 % of the planar edge-state cases have linked parallel edges; 25 % of the cases are placed on the sphere (street-scale latitude-longitude map with parameters in metres). Non-trivial = best path with "
        "an interior and a clamped emitting edge projection; distinct = hash of the case")
ANCHORS = [("leuvenmapmatching/matcher/base.py", "BaseMatcher.do_stop"),
           ("leuvenmapmatching/matcher/base.py", "BaseMatching.next"),
           ("leuvenmapmatching/matcher/base.py", "BaseMatching.first"),
           ("leuvenmapmatching/matcher/base.py", "BaseMatcher._create_start_nodes"),
           ("leuvenmapmatching/util/segment.py", "Segment"),
           ("leuvenmapmatching/util/dist_euclidean.py", "project"),
           ("leuvenmapmatching/util/dist_latlon.py", "distance_point_to_segment")]
FLOORS = {"emitting_edge_states": 6000, "clamped_projections": 800, "interior_projections": 2500, "state_exactly_at_max_dist": 20,
          "emitting_node_states": 800, "paths_judged": 4000, "latlon_paths": 600, "tightened_cases": 600, "paths_with_finite_max_dist": 1500,
          "paths_with_min_prob": 1200, "linked_edge_paths": 400, "paths_using_a_linked_move": 30}
ASSUMPTIONS = ["planar nearest points judged at 1e-6*extent + 64 ulp; latitude-longitude at 0.25 m (noise floor of the cross-/along-track formulation)"]
UNIT_M = 30.0


def to_latlon(case, rng):
    """place a unit-scale planar case on the sphere: 1 unit = 30 m; all distance parameters in metres."""
    center = (rng.uniform(-60, 60), rng.uniform(-170, 170))
    m = case["map"]
    labs = [l for l, _ in m["nodes"]]
    ll = rg.ae_place(center, [(p[0] * UNIT_M, p[1] * UNIT_M) for _, p in m["nodes"]])
    m["nodes"] = [[l, [q[0], q[1]]] for l, q in zip(labs, ll)]
    m["latlon"] = True
    tl = rg.ae_place(center, [(p[0] * UNIT_M, p[1] * UNIT_M) for p in case["trace"]])
    case["trace"] = [[q[0], q[1]] for q in tl]
    cfg = case["cfg"]
    for k in ("obs_noise", "obs_noise_ne", "dist_noise", "dist_noise_ne", "max_dist", "max_dist_init"):
        if cfg.get(k) is not None:
            cfg[k] = cfg[k] * UNIT_M
    return case


def gen_case(rng, i, tier):
    latlon = rng.random() < 0.25
    case = mcase.gen_mcase(rng, families=gen.FAMILIES_ALL, ne=(rng.random() < 0.5), width="maybe", tighten_p=0.0, sparse_p=0.2, max_obs=9)
    if latlon:
        to_latlon(case, rng)
        cfg = case["cfg"]
        if cfg["max_dist"] is None and cfg["max_dist_init"] is None:
            cfg["max_dist"] = rng.choice([None, 60.0, 150.0])
    if not latlon and case["cfg"]["family"] != "simple_nodes" and rng.random() < 0.2:
        # linked parallel edges: the matched edge need not start where the previous one ended, so a state that carries the
        # labels of one edge and the geometry of another shows up against the map's own coordinates
        es = gen.real_edges(case["map"])
        if len(es) >= 2:
            linked = []
            for _ in range(rng.randint(1, 4)):
                a, b = rng.sample(es, 2)
                linked.append([list(a), list(b)])
                if rng.random() < 0.5:
                    linked.append([list(b), list(a)])
            case["map"]["linked"] = linked
            if rng.random() < 0.7:
                case["cfg"]["non_emitting"] = True
    if rng.random() < 0.45:
        mcase.tighten(case, rng)
    case["ops"] = gen.gen_history(rng, len(case["trace"]), case["cfg"]["width"], allow_cwd=False, max_ops=2)
    if not case.get("large") and not case["map"].get("latlon"):
        gen.add_pre_trace(rng, case)
    return case


def check_case(ctx, case):
    m = case["map"]
    model = MapModel(m)
    mp = build.make_inmem(m)
    mt = build.make_matcher(mp, case["cfg"])
    tr = build.trace(case["trace"])
    counters = {}
    if case.get("tightened"):
        ctx.count("tightened_cases")

    def after(i, op, res, exc):
        if exc is not None:
            ctx.count("op_raised")
            ctx.count(f"op_raised:{type(exc).__name__}")
            return
        if not mt.lattice_best:
            return
        ctx.evaluated()
        ctx.count("paths_judged")
        if model.latlon:
            ctx.count("latlon_paths")
        if case["map"].get("linked"):
            ctx.count("linked_edge_paths")
            lk = {(tuple(a), tuple(b)) for a, b in case["map"]["linked"]}
            lb = mt.lattice_best
            if any((x.shortkey, y.shortkey) in lk for x, y in zip(lb, lb[1:])):
                ctx.count("paths_using_a_linked_move")
        if not math.isinf(mt.max_dist):
            ctx.count("paths_with_finite_max_dist")
        if not math.isinf(mt.min_logprob_norm):
            ctx.count("paths_with_min_prob")
        for kind, text in oracles.cutoffs_and_nearest(mt, model, mt.path, counters):
            ctx.violation(f"C05:{kind}:{'latlon' if model.latlon else 'planar'}", case, f"after operation #{i} {op}: {text}")
    monitors.run_history(mt, tr, case["ops"], after=after)
    for k, v in counters.items():
        ctx.count(k, v)
    if counters.get("clamped_projections") and counters.get("interior_projections"):
        ctx.nontriv(case)
    ctx.sample(case)


# no result depends on the log level: a tenth of the cases runs with the package logger at DEBUG (replayable: the flag is
# part of the case / of the recorded witness)
_dbg_gen, _dbg_chk = env.debug_dimension(0.1)
gen_case = _dbg_gen(gen_case)
check_case = _dbg_chk(check_case)

# no clause depends on the map backend: a tenth of the eligible cases (integer labels, no linked edges) runs on SqliteMap
_bk_gen, _bk_chk = build.backend_dimension(0.12)
gen_case = _bk_gen(gen_case)
check_case = _bk_chk(check_case)

# no clause depends on the coordinate unit: 8 % of the planar cases are expressed in a small unit (everything x 2^-7..2^-17)
gen_case = mcase.scale_dimension(0.08)(gen_case)

TECHNIQUE = "runtime monitoring: oracle over every state of the reported best path (configured cut-offs; exact-rational / vector nearest-point reference), incl. exact-threshold workload class"
LEVEL_TEXT = ("{Q} (quick) / {T} (thorough) histories in both metrics; every state on every reported best path is checked against max_dist, "
              "max_dist_init, min_prob_norm, and every emitting state against the exact nearest point, relative position and distance. Thresholds "
              "equal to distances that really occur are a dedicated class. Held-on-observed.")
LEVEL_NOTE = "Trusted: reference geometry. Only states ON the reported path are judged (that is what the property states); dropped candidates are C01's business."
