"""C20 Path interpolation densifies without moving anything.

Monitor shape: oracle over the returned history (the interpolated path) of every generated call
of the real `interpolate_path` functions, planar (exact rational reference) and
latitude-longitude (vector reference).
"""
import math

from .. import env  # noqa: F401
from .. import refgeo as rg
from leuvenmapmatching.util import dist_euclidean as de
from leuvenmapmatching.util import dist_latlon as dl

ID = "C20"
CASES = {"quick": 12000, "thorough": 250000}
MIN_CASES_PER_SHARD = 200
CASE_TIMEOUT = 20
RULE = ("one case = a trace of 1..10 points (planar dyadic / planar real at scales 2^-6..2^20 and offsets to 1e7 / "
        "latitude-longitude, optionally with repeated points and a time component) and a spacing from 1/1000 of to larger "
        "than the longest gap (incl. spacings dividing a gap exactly, and spacings that make a gap a hair above/below a whole number of steps: dist/dd = k +- 1e-12..1e-3); non-trivial = at least one gap was subdivided; "
        "distinct = hash of (trace, spacing)")
ANCHORS = [("leuvenmapmatching/util/dist_euclidean.py", "interpolate_path"),
           ("leuvenmapmatching/util/dist_latlon.py", "interpolate_path")]
FLOORS = {"subdivided_gaps:planar": 2000, "subdivided_gaps:latlon": 2000, "exact_division_cases": 100,
          "repeated_point_cases": 200, "triple_cases": 300, "single_point_cases": 100, "inserted_points_judged": 20000, "near_multiple_cases": 800,
          "latlon_class:longhaul": 150, "latlon_class:polar": 150, "gaps_across_antimeridian:eastward": 60, "gaps_across_antimeridian:westward": 60}
ASSUMPTIONS = ["an inserted point counts as 'on the connection' within 1e-9*gap + (64+2k) ulp of the coordinates for k inserted points "
               "(the repository accumulates k rounded additions; first false alarm of this check, corrected) / 1 mm (sphere)",
               "gap bound judged as spacing*(1+1e-9) plus one ulp of the coordinates"]
EPS = 2.220446049250313e-16


def gen_case(rng, i, tier):
    n = rng.choice([1, 1, 2, 2, 3, 4, 5, 6, 8, 10]) if rng.random() < 0.5 else rng.randint(1, 10)
    metric = rng.choice(["planar", "latlon"])
    triple = rng.random() < 0.25
    exact = False
    if metric == "latlon":
        base = (rng.uniform(-60, 60), rng.uniform(-180, 180))
        if rng.random() < 0.12:
            # "every trace": one that crosses the antimeridian (longitudes jump between +180 and -180), in either direction
            base = (base[0], rng.choice([-1, 1]) * (180.0 - 10 ** rng.uniform(-6, -2)))
        r = rng.random()
        leg = (-1, 3.5)
        if r < 0.06:
            # "every trace": legs of 500 .. 15 000 km (a flight, a ship), far more than 90 degrees of longitude
            leg = (5.7, 7.17)
            case_cls = "longhaul"
        elif r < 0.12:
            # legs of 20 .. 500 km within a few degrees of a pole (longitude runs fast, the connection is far from a rhumb line)
            base = (rng.choice([-1, 1]) * rng.uniform(84.0, 89.3), base[1])
            leg = (4.3, 5.7)
            case_cls = "polar"
        else:
            case_cls = "street"
        pts = []
        cur = base
        for _ in range(n):
            pts.append(cur)
            for _try in range(20):
                nxt = rg.gc_dest(cur, rng.uniform(0, 360), 10 ** rng.uniform(*leg))
                if abs(nxt[0]) < 89.6:
                    break
            cur = nxt
        gaps = [rg.gc_dist(a, b) for a, b in zip(pts, pts[1:])] or [1.0]
        dd = max(gaps) * rng.choice([2.0, 1.0, 0.5, 0.3, 0.1, 0.01, 0.001, rng.uniform(0.002, 1.5)])
    else:
        mode = rng.choice(["dyadic", "real"])
        s = 2.0 ** rng.choice([0, 0, -6, -3, 4, 10, 20])
        off = (float(rng.randint(-10 ** 7, 10 ** 7)), float(rng.randint(-10 ** 7, 10 ** 7))) if rng.random() < 0.25 else (0.0, 0.0)
        if mode == "dyadic":
            pts = [(rng.randint(0, 40) / 4 * s + off[0], rng.randint(0, 40) / 4 * s + off[1]) for _ in range(n)]
        else:
            pts = [(rng.uniform(0, 10) * s + off[0], rng.uniform(0, 10) * s + off[1]) for _ in range(n)]
        gaps = [math.dist(a, b) for a, b in zip(pts, pts[1:])] or [s]
        g = max(gaps) or s
        if mode == "dyadic" and rng.random() < 0.5:
            # axis-parallel gaps of dyadic length: spacings that divide them exactly
            dd = s * rng.choice([0.25, 0.5, 1.0, 2.0, 0.125])
            exact = True
        else:
            dd = g * rng.choice([2.0, 1.0, 0.5, 0.3, 0.1, 0.01, 0.001, rng.uniform(0.002, 1.5)])
    near = False
    if n > 1 and rng.random() < 0.25:
        # the spacing makes one gap a hair above / below a whole number of steps: dist/dd = k +- delta
        j = rng.randrange(n - 1)
        g = gaps[j] if j < len(gaps) else 0.0
        if g > 0:
            k = rng.choice([1, 1, 2, 3, 5, 10])
            delta = rng.choice([1e-12, 1e-9, 1e-7, 1e-6, 1e-5, 3e-5, 1e-4, 1e-3]) * rng.choice([1, 1, -1])
            dd = g / (k + delta)
            near = True
    if n > 1 and rng.random() < 0.2:
        j = rng.randrange(1, n)
        pts[j] = pts[j - 1]
    if triple:
        pts = [(p[0], p[1], 1000.0 + 7 * k) for k, p in enumerate(pts)]
    return {"metric": metric, "path": [list(p) for p in pts], "dd": dd, "exact": exact, "triple": triple, "near_multiple": near,
            "cls": case_cls if metric == "latlon" else "planar"}


def check_case(ctx, case):
    path = [tuple(p) for p in case["path"]]
    dd = case["dd"]
    latlon = case["metric"] == "latlon"
    lib = dl if latlon else de
    ctx.evaluated()
    m = case["metric"]
    if len(path) == 1:
        ctx.count("single_point_cases")
    if case.get("near_multiple"):
        ctx.count("near_multiple_cases")
    if case.get("cls") in ("longhaul", "polar") and len(path) > 1:
        ctx.count(f"latlon_class:{case['cls']}")
    if case["triple"]:
        ctx.count("triple_cases")
    if any(a[:2] == b[:2] for a, b in zip(path, path[1:])):
        ctx.count("repeated_point_cases")
    if latlon:
        for a, b in zip(path, path[1:]):
            if abs(a[1] - b[1]) > 180:
                ctx.count("gaps_across_antimeridian:" + ("westward" if a[1] < b[1] else "eastward"))
    arg = list(path)
    cont = ["tuples", "tuples", "lists", "arrays", "npfloat"][int(abs(dd) * 1e6) % 5] if len(path) else "tuples"
    if cont == "lists":
        arg = [list(p) for p in path]
    elif cont == "arrays":
        import numpy as np
        arg = [np.array(p) for p in path]
    elif cont == "npfloat":
        import numpy as np
        arg = [tuple(np.float64(x) for x in p) for p in path]
    ctx.count(f"container:{cont}")
    try:
        out = lib.interpolate_path(arg, dd)
    except Exception as e:
        ctx.violation(f"C20:{m}:raises-{type(e).__name__}", case, repr(e))
        return
    out = [tuple(float(x) for x in p) for p in out]
    if not out or out[0] != path[0]:
        ctx.violation(f"C20:{m}:first-point-changed", case, f"out[0]={out[:1]} path[0]={path[0]}")
        return
    if out[-1] != path[-1]:
        ctx.violation(f"C20:{m}:last-point-changed", case, f"out[-1]={out[-1]} path[-1]={path[-1]}")
        return
    # locate the originals: earliest occurrence after the previous one; the last original is the last element
    idx = [0]
    for j in range(1, len(path)):
        if j == len(path) - 1:
            k = len(out) - 1
            if k <= idx[-1] and len(path) > 1:
                k = None
        else:
            k = next((q for q in range(idx[-1] + 1, len(out)) if out[q] == path[j]), None)
        if k is None:
            ctx.violation(f"C20:{m}:original-point-missing-or-out-of-order", case, f"original #{j} {path[j]} not found after position {idx[-1]}")
            return
        idx.append(k)
    if len(path) == 1 and len(out) != 1:
        ctx.violation(f"C20:{m}:points-added-to-single-point-trace", case, f"out={out}")
        return
    subdivided = 0
    for j in range(len(path) - 1):
        a, b = path[j][:2], path[j + 1][:2]
        ins = out[idx[j] + 1: idx[j + 1]]
        L = rg.gc_dist(a, b) if latlon else rg.pl_dist(a, b)
        if L > dd:
            if L / dd == int(L / dd):
                ctx.count("exact_division_cases")
        if ins:
            subdivided += 1
            ctx.count(f"subdivided_gaps:{m}")
        if not ins and L > dd * (1 + 1e-9):
            ctx.violation(f"C20:{m}:gap-larger-than-spacing", case, f"gap {j} of length {L} kept whole with spacing {dd}")
            return
        tprev = 0.0
        mag = max(abs(x) for x in a + b)
        for q in ins:
            ctx.count("inserted_points_judged")
            if len(q) != 2:
                ctx.violation(f"C20:{m}:inserted-point-not-a-pair", case, f"{q}")
                return
            if latlon:
                d, t, _ = rg.gc_point_segment(q, a, b)
                tol = 1e-3 + 2e-9 * L   # 1 mm, plus the rounding of coordinates in degrees on legs of thousands of km
                ttol = (tol / L if L > 0 else 1.0)
            else:
                d, t, _ = rg.pl_point_segment(q, a, b)
                tol = 1e-9 * L + (64 + 2 * len(ins)) * EPS * mag
                ttol = (tol / L) if L > 0 else 1.0
            if not d <= tol:
                ctx.violation(f"C20:{m}:inserted-point-off-the-connection", case, f"point {q} is {d} from the connection {a}-{b}")
                return
            if t < tprev - ttol:
                ctx.violation(f"C20:{m}:inserted-points-not-in-order", case, f"point {q} at t={t} after t={tprev}")
                return
            tprev = max(tprev, t)
    for u, v in zip(out, out[1:]):
        g = rg.gc_dist(u, v) if latlon else rg.pl_dist(u[:2], v[:2])
        slack = (1e-6 + 2e-9 * g) if latlon else 64 * EPS * max(abs(x) for x in u[:2] + v[:2])
        if not g <= dd * (1 + 1e-9) + slack:
            ctx.violation(f"C20:{m}:gap-larger-than-spacing", case, f"gap {g} between {u} and {v} with spacing {dd}")
            return
    if subdivided:
        ctx.nontriv([case["path"], dd])
    ctx.sample(case)


TECHNIQUE = "runtime monitoring: oracle over the returned path of every generated interpolate_path call (exact rational / vector reference)"
LEVEL_TEXT = ("{Q} (quick) / {T} (thorough) generated traces and spacings per run, both metrics, incl. exact divisions, repeated points, "
              "single points and time triples; each returned path is checked clause by clause (ends, originals in order, inserted points on "
              "the connection and in order, gap bound). Held-on-observed.")
LEVEL_NOTE = "Trusted: reference geometry (refgeo). Spacings below 1/1000 of the longest gap are not generated (output size)."
