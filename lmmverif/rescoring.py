"""Recompute, along a reported best path, what the documented model assigns to every state (C02).

Input: `matcher.lattice_best` (the real objects) and the matcher's configuration.  Geometry is
taken as *reported* by each state (projection points, relative positions, dist_obs) after
predicates have validated that the reported geometry is self-consistent; closest points between
parallel overlapping segments are not unique, so C02 checks the arithmetic given the geometry
while C05/C13/C14 judge the geometry itself.
"""
import math

LOG = math.log


def _along(a, b, t):
    return (a[0] + t * (b[0] - a[0]), a[1] + t * (b[1] - a[1]))


def geometry_issues(x, dist_fn, tol):
    """self-consistency of the geometric fields of one lattice entry; -> list of (kind, text)"""
    out = []
    em, eo = x.edge_m, x.edge_o
    is_ne = x.obs_ne != 0
    m_edge = em.p2 is not None
    o_seg = eo.p2 is not None
    if is_ne != o_seg:
        out.append(("obs-segment-kind", f"obs_ne={x.obs_ne} but observation side is {'segment' if o_seg else 'point'}"))
        return out
    pm = em.pi
    po = eo.pi
    if m_edge:
        if em.ti is None or pm is None or not (0 <= em.ti <= 1):
            out.append(("edge-relpos", f"ti={em.ti!r} pi={pm!r}"))
            return out
    if o_seg:
        if eo.ti is None or po is None or not (0 <= eo.ti <= 1):
            out.append(("obs-relpos", f"ti={eo.ti!r} pi={po!r}"))
            return out
    d = dist_fn(pm, po)
    if not abs(d - x.dist_obs) <= tol:
        out.append(("dist_obs-not-distance-of-reported-points", f"|{pm}-{po}|={d!r} dist_obs={x.dist_obs!r}"))
    return out


class Params:
    """the model parameters as the DOCUMENTATION derives them from the configuration the user passed (dist_noise defaults to
    obs_noise, the *_ne variants to their emitting counterparts) - not read back from the matcher object, whose own
    bookkeeping of them is part of what is being checked."""
    def __init__(self, matcher, cfg):
        self.lattice_best = matcher.lattice_best
        self.obs_noise = cfg["obs_noise"]
        self.obs_noise_ne = cfg.get("obs_noise_ne") if cfg.get("obs_noise_ne") is not None else self.obs_noise
        self.dist_noise = cfg.get("dist_noise") if cfg.get("dist_noise") is not None else self.obs_noise
        self.dist_noise_ne = cfg.get("dist_noise_ne") if cfg.get("dist_noise_ne") is not None else self.dist_noise
        self.avoid_goingback = bool(cfg.get("agb", False))
        self.ne_length_factor_log = LOG(cfg.get("ne_factor", 0.75))
        self.beta = cfg.get("beta") if cfg.get("beta") is not None else 1 / 6
        self.beta_ne = cfg.get("beta_ne") if cfg.get("beta_ne") is not None else self.beta


def rescore(matcher, dist_fn, family, planar=True, cfg=None):
    """-> list of (entry, expected dict) along matcher.lattice_best"""
    if cfg is not None:
        matcher = Params(matcher, cfg)
    lb = matcher.lattice_best
    out = []
    prev = prev2 = None
    st = None
    agb = getattr(matcher, "avoid_goingback", False)
    for x in lb:
        s = x.shortkey
        is_ne = x.obs_ne != 0
        dist = x.dist_obs
        if family == "distance":
            sd = matcher.obs_noise_ne if is_ne else matcher.obs_noise
            lpo = -dist ** 2 / (2 * sd ** 2)
        elif family == "newsonkrumm":
            # documented: P(d) = 2 * (1 - cdf_N(0, sigma)(d)), evaluated the documented way (the subtraction underflows to 0,
            # i.e. log-probability -inf, beyond ~8.3 sigma: that is part of the model as implemented and documented)
            from scipy.stats import norm
            sd = matcher.obs_noise_ne if is_ne else matcher.obs_noise
            v = 2 * (1 - norm(scale=sd).cdf(dist))
            lpo = LOG(v) if v > 0 else -math.inf
        else:
            sd = matcher.obs_noise_ne if is_ne else matcher.obs_noise
            lpo = -0.5 * (dist / sd) ** 2
        if prev is None:
            cur = dict(logprob=lpo, logprobe=lpo, logprobne=0, length=1, d_o=0.0, d_s=0.0, lpt=0.0, lpe=lpo)
        else:
            ps = prev.shortkey
            prev_ne = prev.obs_ne != 0
            if family == "distance":
                d_z = dist_fn(prev.edge_o.pi, x.edge_o.pi)
                same = ps == s or ps == (s[1], s[0])
                if same or ps[1] != s[0]:
                    d_x = dist_fn(prev.edge_m.pi, x.edge_m.pi)
                else:
                    d_x = dist_fn(prev.edge_m.pi, prev.edge_m.p2) + dist_fn(prev.edge_m.p2, x.edge_m.pi)
                if is_ne:
                    d_z += st["d_o"]
                    d_x += st["d_s"]
                noise = matcher.dist_noise_ne if (prev_ne or is_ne) else matcher.dist_noise
                lpt = -(d_z - d_x) ** 2 / (2 * noise ** 2)
                if ps == s:
                    if agb and x.edge_m.ti < prev.edge_m.ti:
                        lpt += LOG(0.5)
                elif ps == (s[1], s[0]):
                    if agb:
                        lpt += LOG(0.5)
                else:
                    if ps[1] != s[0]:
                        lpt += LOG(0.5)
                    elif agb and prev2 is not None and prev2.shortkey == s:
                        lpt += LOG(0.5)
            elif family == "newsonkrumm":
                # documented: P(dt) = exp(-dt / beta), dt = |distance between observations - distance along the road|
                d_z = dist_fn(prev.edge_o.pi, x.edge_o.pi)
                if ps == s:
                    d_x = dist_fn(prev.edge_m.pi, x.edge_m.pi)
                else:
                    d_x = dist_fn(prev.edge_m.pi, prev.edge_m.p2) + dist_fn(prev.edge_m.p2, x.edge_m.pi)
                lpt = -abs(d_z - d_x) / (matcher.beta_ne if (prev_ne or is_ne) else matcher.beta)
            else:
                d_z = d_x = 0.0
                lpt = 0.0
                if ps == s:
                    if agb and isinstance(s, tuple) and x.edge_m.ti < prev.edge_m.ti:
                        lpt += LOG(0.99)
                else:
                    lpt += LOG(0.9)
                    if agb and prev2 is not None and prev2.shortkey == s:
                        lpt += LOG(0.5)
            delta = lpt + lpo
            if not is_ne:
                e = st["logprob"] + delta
                cur = dict(logprob=e, logprobe=e, logprobne=0, length=st["length"] + 1, d_o=d_z, d_s=d_x, lpt=lpt, lpe=lpo)
            else:
                e = st["logprobe"] + matcher.ne_length_factor_log
                ne = min(st["logprobne"], delta)
                cur = dict(logprob=e + ne, logprobe=e, logprobne=ne, length=st["length"], d_o=d_z, d_s=d_x, lpt=lpt, lpe=lpo)
        out.append((x, cur))
        prev2, prev, st = prev, x, cur
    return out
