"""Instantiate the real maps and matchers of the repository from JSON case dicts."""
import itertools
import math
import os

from . import env  # noqa: F401
from . import gen
from leuvenmapmatching.map.inmem import InMemMap
from leuvenmapmatching.map.sqlite import SqliteMap
from leuvenmapmatching.matcher.simple import SimpleMatcher
from leuvenmapmatching.matcher.distance import DistanceMatcher
from leuvenmapmatching.matcher.newsonkrumm import NewsonKrummMatcher

_counter = itertools.count()


def tup(p):
    return tuple(p)


# --- map backend as a workload dimension -------------------------------------------------------------------------
# A check that builds its maps with make_inmem can run a fraction of its cases on SqliteMap instead: no result may
# depend on the backend beyond the order in which equally good alternatives are listed, and every oracle of such a
# check compares executions on the SAME backend or judges a single execution.
_BACKEND = {"kind": None, "scratch": None, "open": []}


def sqlite_ok(m):
    """SqliteMap stores integer ids; linked edges are only available through connect_parallelroads."""
    return all(isinstance(l, int) and not isinstance(l, bool) for l, _ in m["nodes"]) and not m.get("linked")


class sqlite_backend:
    def __init__(self, on, scratch, bulk=True, prior=None):
        self.on, self.scratch, self.bulk, self.prior = on, scratch, bulk, prior

    def __enter__(self):
        if self.on:
            _BACKEND.update(kind="sqlite", scratch=self.scratch, open=[], bulk=self.bulk, prior=self.prior)
        return self

    def __exit__(self, *a):
        for sm in _BACKEND["open"]:
            try:
                close_sqlite(sm)
            except Exception:
                pass
        _BACKEND.update(kind=None, scratch=None, open=[])
        return False


def backend_dimension(p):
    """decorator pair (like env.debug_dimension): a fraction p of the eligible cases gets case["backend"]="sqlite"."""
    def gen_(gen_case):
        def wrapped(rng, i, tier):
            case = gen_case(rng, i, tier)
            if isinstance(case, dict) and "backend" not in case and isinstance(case.get("map"), dict):
                r = rng.random()
                # node states are left out: InMemMap lists a node as its own neighbour and SqliteMap does not (the difference
                # property C12 itself allows), so "staying at a node" only exists on InMemMap
                if r < p and sqlite_ok(case["map"]) and (case.get("cfg") or {}).get("family") != "simple_nodes":
                    case["backend"] = "sqlite"
                    case["sqlite_bulk"] = rng.random() < 0.5
                    if rng.random() < 0.35:
                        case["sqlite_prior"] = prior_spec(rng)
                elif r < 1.5 * p:
                    # InMemMap built the documented way, node by node and road by road, instead of from a graph dict
                    case["backend"] = "inmem_incremental"
            return case
        return wrapped

    def chk(check_case):
        def wrapped(ctx, case):
            on = isinstance(case, dict) and case.get("backend") == "sqlite"
            if on:
                ctx.count("sqlite_backend_cases")
            inc = isinstance(case, dict) and case.get("backend") == "inmem_incremental"
            if inc:
                ctx.count("incremental_inmem_cases")
                _BACKEND["incremental"] = True
                ctx.case_backend = {"incremental": True}
                try:
                    return check_case(ctx, case)
                finally:
                    _BACKEND["incremental"] = False
                    ctx.case_backend = None
            ctx.case_backend = {"bulk": case.get("sqlite_bulk", True), "prior": case.get("sqlite_prior")} if on else None
            try:
                with sqlite_backend(on, ctx.scratch, bulk=case.get("sqlite_bulk", True) if on else True,
                                    prior=case.get("sqlite_prior") if on else None):
                    return check_case(ctx, case)
            finally:
                ctx.case_backend = None
        return wrapped
    return gen_, chk


def make_inmem(m, name="m"):
    if _BACKEND["kind"] == "sqlite" and sqlite_ok(m):
        sm = make_sqlite(m, _BACKEND["scratch"], bulk=_BACKEND.get("bulk", True), prior=_BACKEND.get("prior"))
        _BACKEND["open"].append(sm)
        return sm
    graph = {l: ((p[0], p[1]), list(n)) for l, (p, n) in gen.graph_dict(m).items()}
    if _BACKEND.get("incremental") and not m.get("linked"):
        mp = InMemMap(name, use_latlon=bool(m.get("latlon")))
        for l, (p, n) in graph.items():
            mp.add_node(l, p)
        for l, (p, n) in graph.items():
            for b in n:
                if b in graph:
                    mp.add_edge(l, b)
        return mp
    linked = None
    if m.get("linked"):
        # Dict[edge, Set[edge]] is the documented type (and what connect_parallelroads builds); lists are accepted too and
        # keep the user's order: both forms are used, chosen by the content of the map
        as_list = len(repr(m["linked"])) % 2 == 0
        linked = {}
        for (a, b), (c, d) in m["linked"]:
            if as_list:
                lst = linked.setdefault((a, b), [])
                if (c, d) not in lst:
                    lst.append((c, d))
            else:
                linked.setdefault((a, b), set()).add((c, d))
    return InMemMap(name, graph=graph, use_latlon=bool(m.get("latlon")), linked_edges=linked)


def prior_spec(rng):
    """an EARLIER map that lived in the same database file (see make_sqlite): same labels and node pairs, other places."""
    return {"shift": [rng.choice([0.0, 50.0, -300.0]), rng.choice([40.0, -75.0, 1000.0])], "squeeze": rng.choice([0.01, 0.05, 1.0]),
            "link": rng.choice([0.5, 2.0, 10.0]), "bulk": rng.random() < 0.5}


def make_sqlite(m, scratch, bulk=True, name=None, prior=None):
    """`prior`: the database file is REUSED - an earlier SqliteMap with the same name and directory held a map with the same
    labels and directed edges at other coordinates (shifted, squeezed so that roads lie close and parallel), had its
    parallel roads linked, and was closed.  Constructing the new map must leave nothing of it behind."""
    name = name or f"map{os.getpid()}_{next(_counter)}"
    if prior:
        sc = 1e-3 if m.get("latlon") else 1.0
        dy, dx = prior["shift"][0] * sc, prior["shift"][1] * sc
        m0 = dict(m)
        m0["nodes"] = [[l, [p[0] * prior["squeeze"] + dy, p[1] + dx]] for l, p in m["nodes"]]
        old = make_sqlite(m0, scratch, bulk=prior.get("bulk", True), name=name)
        try:
            old.connect_parallelroads(dist=prior["link"] * (30.0 if m.get("latlon") else 1.0))
        finally:
            old.db.close()
    sm = SqliteMap(name, use_latlon=bool(m.get("latlon")), dir=scratch)
    nodes = [(l, (p[0], p[1])) for l, p in m["nodes"]]
    edges = []
    for a, b in m["edges"]:
        if (a, b) not in edges:
            edges.append((a, b))
    if bulk:
        sm.add_nodes(nodes)
        sm.add_edges(edges)
    else:
        for l, p in nodes:
            sm.add_node(l, p)
        for a, b in edges:
            sm.add_edge(a, b)
    return sm


def close_sqlite(sm):
    try:
        sm.db.close()
    finally:
        try:
            os.unlink(str(sm.db_fn))
        except OSError:
            pass


def matcher_kwargs(cfg):
    kw = dict(obs_noise=cfg["obs_noise"], non_emitting_states=cfg["non_emitting"],
              max_lattice_width=cfg.get("width"), max_dist=cfg.get("max_dist"),
              max_dist_init=cfg.get("max_dist_init"), min_prob_norm=cfg.get("min_prob_norm"),
              avoid_goingback=cfg.get("agb", False),
              non_emitting_length_factor=cfg.get("ne_factor", 0.75))
    if cfg.get("obs_noise_ne") is not None:
        kw["obs_noise_ne"] = cfg["obs_noise_ne"]
    if cfg["family"] == "distance":
        if cfg.get("dist_noise") is not None:
            kw["dist_noise"] = cfg["dist_noise"]
        if cfg.get("dist_noise_ne") is not None:
            kw["dist_noise_ne"] = cfg["dist_noise_ne"]
        kw["restrained_ne"] = cfg.get("restrained_ne", True)
    elif cfg["family"] == "newsonkrumm":
        kw.pop("avoid_goingback", None)
        if cfg.get("beta") is not None:
            kw["beta"] = cfg["beta"]
        if cfg.get("beta_ne") is not None:
            kw["beta_ne"] = cfg["beta_ne"]
    else:
        kw["only_edges"] = cfg["family"] == "simple"
    return kw


# positional order of BaseMatcher.__init__ after map_con (documented signature)
_POSITIONAL = ("obs_noise", "max_dist_init", "max_dist", "min_prob_norm", "non_emitting_states", "max_lattice_width", "only_edges")


def make_matcher(mp, cfg):
    """the calling convention is part of the workload: depending on the configuration (deterministically, so that replays
    agree) the leading options are passed positionally - obs_noise only, or the first four - instead of by keyword."""
    kw = matcher_kwargs(cfg)
    style = sum(ord(ch) for ch in repr(sorted((k, v) for k, v in cfg.items() if k != "family"))) % 5
    npos = {1: 1, 2: 4}.get(style, 0)
    args = []
    for name in _POSITIONAL[:npos]:
        if name not in kw:
            if name in ("max_dist_init", "max_dist", "min_prob_norm"):
                kw[name] = None
            else:
                break
        args.append(kw.pop(name))
    if cfg["family"] == "distance":
        return DistanceMatcher(mp, *args, **kw)
    if cfg["family"] == "newsonkrumm":
        return NewsonKrummMatcher(mp, *args, **kw)
    return SimpleMatcher(mp, *args, **kw)


def trace(tr):
    return [tuple(p) for p in tr]


def live(col, layer=0):
    return [x for x in col.values(layer) if not x.stop]


def canon(matcher, result):
    """(empty?, last index, best live emitting log-probability in that column, [(key, logprob)] of lattice_best)."""
    states, idx = result
    if not states:
        return {"empty": True, "idx": idx, "best": None, "path": [], "states": states if states is None else list(states)}
    col = matcher.lattice[idx]
    best = max((x.logprob for x in col.values(0) if not x.stop), default=None)
    return {"empty": False, "idx": idx, "best": best,
            "path": [[list(x.key), x.logprob] for x in matcher.lattice_best],
            "states": [list(s) if isinstance(s, tuple) else s for s in states]}
