"""Instantiate the real maps and matchers of the repository from JSON case dicts."""
import itertools
import math
import os

from . import env  # noqa: F401
from . import gen
from leuvenmapmatching.map.inmem import InMemMap
from leuvenmapmatching.map.sqlite import SqliteMap
from leuvenmapmatching.matcher.simple import SimpleMatcher
from leuvenmapmatching.matcher.distance import DistanceMatcher
from leuvenmapmatching.matcher.newsonkrumm import NewsonKrummMatcher

_counter = itertools.count()


def tup(p):
    return tuple(p)


def make_inmem(m, name="m"):
    graph = {l: ((p[0], p[1]), list(n)) for l, (p, n) in gen.graph_dict(m).items()}
    linked = None
    if m.get("linked"):
        linked = {}
        for (a, b), (c, d) in m["linked"]:
            linked.setdefault((a, b), set()).add((c, d))
    return InMemMap(name, graph=graph, use_latlon=bool(m.get("latlon")), linked_edges=linked)


def make_sqlite(m, scratch, bulk=True, name=None):
    name = name or f"map{os.getpid()}_{next(_counter)}"
    sm = SqliteMap(name, use_latlon=bool(m.get("latlon")), dir=scratch)
    nodes = [(l, (p[0], p[1])) for l, p in m["nodes"]]
    edges = []
    for a, b in m["edges"]:
        if (a, b) not in edges:
            edges.append((a, b))
    if bulk:
        sm.add_nodes(nodes)
        sm.add_edges(edges)
    else:
        for l, p in nodes:
            sm.add_node(l, p)
        for a, b in edges:
            sm.add_edge(a, b)
    return sm


def close_sqlite(sm):
    try:
        sm.db.close()
    finally:
        try:
            os.unlink(str(sm.db_fn))
        except OSError:
            pass


def matcher_kwargs(cfg):
    kw = dict(obs_noise=cfg["obs_noise"], non_emitting_states=cfg["non_emitting"],
              max_lattice_width=cfg.get("width"), max_dist=cfg.get("max_dist"),
              max_dist_init=cfg.get("max_dist_init"), min_prob_norm=cfg.get("min_prob_norm"),
              avoid_goingback=cfg.get("agb", False),
              non_emitting_length_factor=cfg.get("ne_factor", 0.75))
    if cfg.get("obs_noise_ne") is not None:
        kw["obs_noise_ne"] = cfg["obs_noise_ne"]
    if cfg["family"] == "distance":
        if cfg.get("dist_noise") is not None:
            kw["dist_noise"] = cfg["dist_noise"]
        kw["restrained_ne"] = cfg.get("restrained_ne", True)
    elif cfg["family"] == "newsonkrumm":
        kw.pop("avoid_goingback", None)
        if cfg.get("beta") is not None:
            kw["beta"] = cfg["beta"]
    else:
        kw["only_edges"] = cfg["family"] == "simple"
    return kw


def make_matcher(mp, cfg):
    kw = matcher_kwargs(cfg)
    if cfg["family"] == "distance":
        return DistanceMatcher(mp, **kw)
    if cfg["family"] == "newsonkrumm":
        return NewsonKrummMatcher(mp, **kw)
    return SimpleMatcher(mp, **kw)


def trace(tr):
    return [tuple(p) for p in tr]


def live(col, layer=0):
    return [x for x in col.values(layer) if not x.stop]


def canon(matcher, result):
    """(empty?, last index, best live emitting log-probability in that column, [(key, logprob)] of lattice_best)."""
    states, idx = result
    if not states:
        return {"empty": True, "idx": idx, "best": None, "path": [], "states": states if states is None else list(states)}
    col = matcher.lattice[idx]
    best = max((x.logprob for x in col.values(0) if not x.stop), default=None)
    return {"empty": False, "idx": idx, "best": best,
            "path": [[list(x.key), x.logprob] for x in matcher.lattice_best],
            "states": [list(s) if isinstance(s, tuple) else s for s in states]}
