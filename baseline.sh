#!/bin/bash
# Runs the repository's pinned baseline (guard OFF: LMM_VERIF unset) and compares the set of passing
# tests with /root/.vp/BASELINE.json "stable_pass".  usage: baseline.sh [repo-dir]
REPO="${1:-/repo}"
unset LMM_VERIF
OUT="$(mktemp /tmp/lmm_baseline_XXXX.xml)"
( cd "$REPO" && /venv/bin/python -m pytest -ra -q -p no:cacheprovider --timeout=900 --continue-on-collection-errors --junitxml="$OUT" >/dev/null 2>&1 )
/venv/bin/python - "$OUT" <<'PY'
import sys, json, xml.etree.ElementTree as ET
base = json.load(open('/root/.vp/BASELINE.json'))
want = set(base['stable_pass'])
got = set()
for tc in ET.parse(sys.argv[1]).getroot().iter('testcase'):
    if not any(c.tag in ('failure', 'error', 'skipped') for c in tc):
        got.add(f"{tc.get('classname')}::{tc.get('name')}")
missing = sorted(want - got)
print(f"baseline: {len(want & got)}/{len(want)} stable tests pass; extra passing: {sorted(got - want)}")
for m in missing:
    print("  MISSING", m)
sys.exit(1 if missing else 0)
PY
rc=$?
rm -f "$OUT"
exit $rc
